# shared by fakevcs/git and fakevcs/hg (sourced).  One record per invocation is appended to $FAKEVCS_LOG:
#   "R <argc>\n" followed by <argc> netstring-like fields "<byte length>:<bytes>\n".
LC_ALL=C
export LC_ALL
fv_log() {
  {
    printf 'R %d\n' "$#"
    for a in "$@"; do
      printf '%d:' "${#a}"
      printf '%s\n' "$a"
    done
  } >> "$FAKEVCS_LOG"
}
fv_maybe_fail() {
  # exit non-zero on the n-th invocation of kind $FAKEVCS_FAIL (n = $FAKEVCS_FAIL_N, default 1)
  if [ -n "$FAKEVCS_FAIL" ] && [ "$1" = "$FAKEVCS_FAIL" ]; then
    cf="$FAKEVCS_DIR/failcount"
    n=0
    [ -f "$cf" ] && n=$(cat "$cf")
    n=$((n + 1))
    echo "$n" > "$cf"
    if [ "$n" -eq "${FAKEVCS_FAIL_N:-1}" ]; then
      echo "fakevcs: injected failure of '$1'" >&2
      exit 1
    fi
  fi
}
fv_out() {
  [ -f "$FAKEVCS_DIR/$1.out" ] && cat "$FAKEVCS_DIR/$1.out"
  return 0
}
