"""C01 - a successful bump yields a valid, strictly greater version; otherwise nothing changes."""
import os
import shutil
import tempfile
import datetime as dt

from harness.core import Part, ok, viol, discard
from harness import fuzz, dp, bv, grammar, bumpref, pep440ref, projgen
from harness.refmodel import PART_FIELD, parts_of, pattern_str, ref_render, ref_parse_all, ref_cal, with_defaults, state_eq_on

ID = "C01"
LEVEL = "exploration"
RULE = ("One Hypothesis binary draw is decoded into (grammar pattern, reachable current version, flag set incl. inapplicable "
        "flags and an invalid --tag now and then, date offset class, optional --set-version of class greater / equal / lower "
        "/ PEP 440-equal-but-textually-different (optional zero group written out, leading zeros) / malformed (one edit, "
        "trailing junk) / calendar-impossible / valid for another pattern, mode test | update --dry | real update on a "
        "generated two-file project). Oracle: exit 0 => announced version has a full parse under the reference recogniser, "
        "is strictly greater than the start version in the reference order (packaging.version; legacy key for non-PEP 440 "
        "strings) and - real update - is what the config now holds; otherwise exit != 0 and (update modes) every file is "
        "byte-identical. Non-trivial: exit 0, or a --set-version case of a class that exercises the gate.")
ASSUME = ["reference recogniser (harness/refmodel.py) for 'matches the pattern in full', incl. calendar possibility",
          "reference order harness/pep440ref.py (packaging.version + historical legacy key)",
          "start version = config value (no VCS in this check; tag scopes are C09's subject)"]

OFFSETS = [0, 0, 1, 7, 31, 366, -1, -40, -400]
TAGVALS = ["alpha", "beta", "rc", "dev", "post", "final"]
SV_CLASSES = ["greater", "equal", "lower-or-random", "pep440-equal", "malformed", "impossible", "other-pattern"]
JUNK = ["x", ".0", "-", " ", ".dev", "+abc", "0", "\n"]


def render_forced(nodes, state):
    """like ref_render but optional groups are always written out"""
    from harness.refmodel import fmt_part
    out = []
    for n in nodes:
        if n[0] == "lit":
            out.append(n[1])
        elif n[0] == "part":
            out.append(fmt_part(n[1], state))
        else:
            out.append(render_forced(n[1], state))
    return "".join(out)


def render_leading_zero(nodes, state, which):
    from harness.refmodel import fmt_part
    out = []
    k = [0]

    def walk(ns):
        for n in ns:
            if n[0] == "lit":
                out.append(n[1])
            elif n[0] == "part":
                t = fmt_part(n[1], state)
                if n[1] in ("MAJOR", "MINOR", "PATCH", "NUM", "INC0", "BUILD"):
                    if k[0] == which:
                        t = "0" + t
                    k[0] += 1
                out.append(t)
            else:
                ps = list(parts_of(n[1]))
                from harness.refmodel import all_zero
                if len(ps) == 0 or all_zero(n[1], state):
                    continue
                walk(n[1])
    walk(nodes)
    return "".join(out)


def greater_text(nodes, state, parts):
    """a valid greater version of the same pattern (reference model) or None"""
    date = grammar.date_of(state)
    try:
        later = date + dt.timedelta(days=400) if date.year < 9998 else date
        if not (1000 <= later.year <= 9999) or (set(parts) & {"YY", "0Y", "GG", "0G"} and later.year > 2098):
            later = date
        E = bumpref.ref_bump(nodes, state, major="MAJOR" in parts, minor="MINOR" in parts and "MAJOR" not in parts,
                             patch="PATCH" in parts and not ({"MAJOR", "MINOR"} & set(parts)), date=later)
        return ref_render(nodes, E)
    except bumpref.Overflow:
        return None


def gen_set_version(d, nodes, state, old):
    cls = d.choice(SV_CLASSES)
    parts = list(parts_of(nodes))
    if cls == "greater":
        g = greater_text(nodes, state, parts)
        return (cls, g) if g is not None else ("equal", old)
    if cls == "equal":
        return cls, old
    if cls == "lower-or-random":
        s2 = grammar.gen_state(d, nodes)
        if d.bool():
            # close to the current version: same date, one numeric part lower
            s2 = dict(state)
            f = d.choice(["major", "minor", "patch", "num", "inc0"])
            s2[f] = max(0, s2[f] - 1)
        return cls, ref_render(nodes, s2)
    if cls == "pep440-equal":
        cand = [render_forced(nodes, state)] + [render_leading_zero(nodes, state, i) for i in range(3)]
        cand = [c for c in cand if c != old]
        if cand:
            return cls, d.choice(cand)
        return "equal", old
    if cls == "malformed":
        if d.chance(1, 4):
            # a valid greater version with white space around it (as `$(cat VERSION)` of a CRLF file would pass it)
            g = greater_text(nodes, state, parts)
            if g is not None:
                pad = d.choice([" ", "\r", "\t", "  "])
                return cls, (pad + g) if d.chance(1, 3) else (g + pad)
        if d.bool():
            return cls, old + d.choice(JUNK)
        i = d.int(0, max(0, len(old) - 1))
        how = d.int(0, 2)
        c = d.choice("0123456789.-abvx ")
        if how == 0:
            return cls, old[:i] + old[i + 1:]
        if how == 1:
            return cls, old[:i] + c + old[i:]
        return cls, old[:i] + c + old[i + 1:]
    if cls == "impossible":
        s2 = dict(state)
        if {"month", "dom"} <= {PART_FIELD[p] for p in parts}:
            s2["month"], s2["dom"] = d.choice([[2, 30], [2, 31], [4, 31], [11, 31], [2, 29]])
            if s2["month"] == 2 and s2["dom"] == 29:
                s2["year_y"] = s2["year_y"] - s2["year_y"] % 4 + 1  # not a leap year
        elif "doy" in {PART_FIELD[p] for p in parts}:
            s2["doy"] = 366
            s2["year_y"] = s2["year_y"] - s2["year_y"] % 4 + 1
        else:
            return "malformed", old + "."
        s2["major"] = s2["major"] + 1
        s2["patch"] = s2["patch"] + 1
        s2["inc0"] = s2["inc0"] + 1
        if not (1000 <= s2["year_y"] <= 9999):
            return "malformed", old + "."
        return cls, ref_render(nodes, s2)
    return cls, d.choice(["1.2.3", "v2030.1001", "2030.12", "v1.0.0-rc1", "203012.1001-beta", "9999.99.99"])


def build(d):
    nodes, state, text = grammar.gen_pattern_and_state(d)
    if nodes is None:
        return {"discard": state}
    parts = set(parts_of(nodes))
    flags = {}
    for f in ("major", "minor", "patch"):
        flags[f] = d.chance(2, 5) if f.upper() in parts else d.chance(1, 12)
    has_tag = bool(parts & {"TAG", "PYTAG"})
    flags["tag_num"] = d.chance(1, 3) if "NUM" in parts else d.chance(1, 16)
    flags["pin_date"] = d.chance(1, 5)
    flags["pin_increments"] = d.chance(1, 5)
    flags["tag"] = d.choice(TAGVALS + ["gamma"]) if d.chance(1, 3 if has_tag else 12) else None
    old_date = grammar.date_of(state)
    try:
        new_date = old_date + dt.timedelta(days=d.choice(OFFSETS))
    except OverflowError:
        new_date = old_date
    if not 1000 <= new_date.year <= 9999:
        new_date = old_date
    if parts & {"YY", "0Y", "GG", "0G"} and not (2001 <= new_date.year <= 2099 and 2001 <= ref_cal(new_date)["year_g"] <= 2099):
        new_date = old_date
    case = {"ast": nodes, "state": state, "old": text, "flags": flags, "date": new_date.isoformat(),
            "mode": d.choice(["test", "test", "update-dry", "update-real", "update-real"]), "sv_class": None}
    if d.chance(1, 2):
        cls, sv = gen_set_version(d, nodes, state, text)
        case["sv_class"] = cls
        flags["set_version"] = sv
    return case


README = "# demo\n\nThis is version {v} of the demo.\nSecond line keeps {v} too? no: only one occurrence per pattern and line.\n"


def check(case):
    if "discard" in case:
        return discard(case["discard"])
    ast, flags, old, mode = case["ast"], dict(case["flags"]), case["old"], case["mode"]
    pattern = pattern_str(ast)
    date = dt.date.fromisoformat(case["date"])
    if not flags.get("pin_date"):
        flags["date"] = case["date"]
    fargs = bv.flag_args(flags)
    sv = flags.get("set_version")
    classes = [mode]
    if case["sv_class"]:
        k_old = pep440ref.key(old)
        k_sv = pep440ref.key(sv)
        real = case["sv_class"]
        if real in ("lower-or-random", "greater"):
            real = "greater" if k_sv > k_old else "lower" if k_sv < k_old else ("equal" if sv == old else "pep440-equal")
        if real == "pep440-equal" and not (k_sv == k_old and sv != old):
            real = "greater" if k_sv > k_old else "lower" if k_sv < k_old else "equal"
        classes.append("set-version:" + real)
    gate_case = case["sv_class"] is not None and case["sv_class"] != "greater"
    tmp = None
    try:
        if mode == "test":
            args = ["test", old, pattern] + fargs
            res = bv.run(args, today=date)
            before = after = None
        else:
            tmp = tempfile.mkdtemp(prefix="c01_")
            spec = {"current_version": old, "version_pattern": pattern, "files": [["README.md", ["version {version} of"]]]}
            projgen.write_file(tmp, "bumpver.toml", projgen.toml_config(spec))
            projgen.write_file(tmp, "README.md", "# demo\n\nThis is version %s of the demo.\n" % old)
            before = projgen.snapshot(tmp)
            args = ["update", "--no-fetch"] + (["--dry"] if mode == "update-dry" else []) + fargs
            res = bv.run(args, cwd=tmp, today=date)
            after = projgen.snapshot(tmp)
        detail = {"args": args, "pattern": pattern, "old": old, "res": res.summary()}
        sig = {"mode": mode, "sv_class": case["sv_class"]}
        if res.exit != 0:
            classes.append("rejected")
            if before is not None and before != after:
                detail["changed"] = projgen.diff_snap(before, after)
                return viol("nonzero-exit-but-files-changed", dict(sig, crashed=res.crashed), detail, classes=tuple(classes))
            return ok(nt=gate_case, classes=tuple(classes))
        classes.append("accepted")
        N = res.new_version
        if N is None:
            return viol("exit0-without-announced-version", sig, detail, classes=tuple(classes))
        detail["announced"] = N
        if mode != "test":
            start = res.old_version
            if start != old:
                return viol("start-version-not-the-config-value", sig, detail, classes=tuple(classes))
        if not ref_parse_all(ast, N):
            return viol("announced-version-does-not-match-pattern-in-full", sig, detail, classes=tuple(classes))
        if not pep440ref.key(N) > pep440ref.key(old):
            rel = "equal" if pep440ref.key(N) == pep440ref.key(old) else "lower"
            return viol("announced-version-not-greater:" + rel, dict(sig, rel=rel), detail, classes=tuple(classes))
        if mode == "update-real":
            # the config now holds the announced version (compared as parsed parts: --set-version may spell the
            # same version differently, e.g. with an optional zero group written out; the config is re-rendered)
            cfg = after["bumpver.toml"].decode("utf-8")
            line = [ln for ln in cfg.splitlines() if ln.startswith("current_version = ")]
            held = line[0][len('current_version = "'):-1] if line else None
            want = [with_defaults(ast, p) for p in ref_parse_all(ast, N)]
            have = [with_defaults(ast, p) for p in ref_parse_all(ast, held)] if held is not None else []
            if not have or not any(state_eq_on(ast, h, w) for h in have for w in want):
                detail["config_holds"] = held
                return viol("config-does-not-hold-announced-version", sig, detail, classes=tuple(classes))
        return ok(nt=True, classes=tuple(classes))
    finally:
        if tmp:
            shutil.rmtree(tmp, ignore_errors=True)


PARTS = [
    Part("gate", check=check, strategy=lambda: dp.cases(build, size=256), n={"quick": 48000, "thorough": 1200000}),
    fuzz.fuzz_part("gate-coverage-guided", build, check, size=256, runs={"quick": 6000, "thorough": 240000}),
]

MANIFEST = {
    "text": "Generated-input search over patterns x versions x flags x dates x seven classes of --set-version targets, through "
            "`bumpver test`, `update --dry` and real `update`; validity is judged by an independent recogniser and order by "
            "packaging.version, and every rejected update must leave all files byte-identical.",
    "note": "v2 patterns of grammar G; legacy patterns only for the full-match requirement (a valid greater version followed by "
            "text that no legacy part can match); the start version is the config value "
            "(tag scopes: C09). Cannot prove absence.",
    "technique": "property-based testing (Hypothesis, grammar-decoded cases) with reference recogniser + PEP 440 order oracle; plus coverage-guided fuzzing (atheris/libFuzzer) of the same byte decoder and oracle",
}


# ------------------------------------------------------------------ legacy patterns: the same gate (trailing text)

from checks import c20_legacy_patterns as _l  # noqa: E402
from bumpver import v1version as _v1  # noqa: E402


def build_legacy(d):
    case = _l.build_b(d)
    case["junk"] = d.choice(["~1", "~", ".x", " x", "+", ".5~", "~-beta"])
    case["mode"] = d.choice(["test", "update-real"])
    return case


def check_legacy(case):
    pattern = case["pattern"]
    date = dt.date.fromisoformat(case["date"])
    v = case["vals"]
    vinfo = _l.make_vinfo(date, v["major"], v["minor"], v["patch"], v["bid"], v["tag"])
    if _l.roundtrip(pattern, vinfo):
        return discard("start-version-does-not-round-trip")
    old = _v1.format_version(vinfo, pattern)
    greater = _l.make_vinfo(min(date + dt.timedelta(days=400), dt.date(2099, 12, 31)), v["major"] + 1, v["minor"], v["patch"], "9999", v["tag"])
    if _l.roundtrip(pattern, greater):
        return discard("target-version-does-not-round-trip")
    sv = _v1.format_version(greater, pattern) + case["junk"]  # '~' cannot be part of any legacy version
    tmp = None
    try:
        if case["mode"] == "test":
            args = ["test", old, pattern, "--set-version", sv]
            res = bv.run(args, today=date)
            before = after = None
        else:
            tmp = tempfile.mkdtemp(prefix="c01l_")
            spec = {"current_version": old, "version_pattern": pattern, "files": [["README.md", ["version {version} of"]]]}
            projgen.write_file(tmp, "bumpver.toml", projgen.toml_config(spec))
            projgen.write_file(tmp, "README.md", "This is version %s of the demo.\n" % old)
            before = projgen.snapshot(tmp)
            args = ["update", "--no-fetch", "--set-version", sv]
            res = bv.run(args, cwd=tmp, today=date)
            after = projgen.snapshot(tmp)
        detail = {"args": args, "pattern": pattern, "old": old, "res": res.summary()}
        sig = {"mode": case["mode"], "legacy": True}
        if res.exit == 0:
            return viol("announced-version-does-not-match-pattern-in-full:legacy", sig, dict(detail, announced=res.new_version))
        if before is not None and before != after:
            return viol("nonzero-exit-but-files-changed", sig, dict(detail, changed=projgen.diff_snap(before, after)))
        return ok(nt=True, classes=("legacy-rejected",))
    finally:
        if tmp:
            shutil.rmtree(tmp, ignore_errors=True)


PARTS.append(Part("legacy-gate-trailing-text", check=check_legacy, strategy=lambda: dp.cases(build_legacy, size=64),
                  n={"quick": 6000, "thorough": 100000}, max_discard=0.3))


# ------------------------------------------------------------------ "in every other case ... no project file is changed", commit on

from harness import fakevcs as _fv  # noqa: E402

BAD_TEMPLATES = ["release {version}", "v{new_version", "{0} {new_version}", "done }", "{old_version.major}", "{ticket} NEW", "{}", "{new_version!x}"]


def build_tmpl(d):
    legacy = d.chance(1, 5)
    if legacy:
        spec, flags, date = projgen.gen_legacy_project(d, max_files=2)
    else:
        nodes, state, old = grammar.gen_pattern_and_state(d, safe_seps=True)
        if nodes is None:
            return {"discard": state}
        spec = projgen.gen_project(d, nodes, state, pep_shaped=False, max_files=2, max_patterns=2, regimes=["lf", "crlf"])
        spec["legacy"] = False
        flags, date = projgen.gen_bump(d, nodes, state)
    return {"spec": spec, "flags": flags, "date": date, "where": d.choice(["-c", "--tag-message", "cfg-commit", "cfg-tag"]),
            "template": d.choice(BAD_TEMPLATES), "tag": d.bool(), "vcs": d.choice(["git", "git", "hg"])}


def check_tmpl(case):
    """a commit / tag message template that cannot be rendered: whatever bumpver says, a non-zero exit must leave every file
    as it was and must not have issued a mutating VCS command"""
    if "discard" in case:
        return discard(case["discard"])
    spec = case["spec"]
    state = spec["state"]
    if not spec["legacy"] and projgen.construction_ok(spec, state):
        return discard("construction-self-check")
    flags = dict(case["flags"])
    flags.pop("pin_date", None)
    flags["date"] = case["date"]
    args = bv.flag_args(flags)
    options = {"commit": True, "tag": case["tag"], "push": False}
    if case["where"] == "cfg-commit":
        options["commit_message"] = case["template"]
    elif case["where"] == "cfg-tag":
        options["tag_message"] = case["template"]
    else:
        args += [case["where"], case["template"]]
    tmp = tempfile.mkdtemp(prefix="c01t_")
    fvdir = tempfile.mkdtemp(prefix="c01tfv_")
    try:
        projgen.materialize(spec, tmp, state, options)
        fv = _fv.FakeVCS(tmp, case["vcs"], state_dir=fvdir)
        fv.set("status", "")
        before = projgen.snapshot(tmp)
        res = bv.run(["update", "--no-fetch"] + args, cwd=tmp, env=fv.env(), today=dt.date.fromisoformat(case["date"]))
        after = projgen.snapshot(tmp)
        sig = {"where": case["where"], "legacy": spec["legacy"], "vcs": case["vcs"]}
        detail = {"args": args, "options": options, "res": res.summary(500)}
        if res.exit == 0:
            return ok(nt=False, classes=("template-accepted",))
        if after != before:
            return viol("nonzero-exit-but-files-changed:message-template", sig, dict(detail, changed=projgen.diff_snap(before, after)))
        bad = [rec for rec in fv.records() if _fv.kind_of(rec) in _fv.MUTATING]
        if bad:
            return viol("nonzero-exit-but-vcs-changed:message-template", sig, dict(detail, log=bad))
        return ok(nt=True, classes=("unrenderable-template-rejected-untouched",))
    finally:
        shutil.rmtree(tmp, ignore_errors=True)
        shutil.rmtree(fvdir, ignore_errors=True)


PARTS.append(Part("failed-update-with-vcs-untouched", check=check_tmpl, strategy=lambda: dp.cases(build_tmpl, size=600),
                  n={"quick": 1600, "thorough": 40000}, max_discard=0.1))
