"""C05 - bump semantics follow the documented part rules."""
import datetime as dt

from harness.core import Part, ok, viol, discard, HarnessError
from harness import fuzz, dp, bv, grammar, bumpref
from harness.refmodel import (PART_FIELD, parts_of, pattern_str, ref_render, ref_parse_all, with_defaults,
                              selftest_calendar, ref_cal)

ID = "C05"
LEVEL = "exploration"
RULE = ("One Hypothesis binary draw is decoded into (pattern AST from grammar G, reachable state with boundary-"
        "biased part values, subset of the 6 boolean flags, optional --tag, date offset class: same day, +1, +7, "
        "+31, +366, -1, -40, -400 days or a free date). `bumpver test OLD PATTERN flags --date D` runs in-process; "
        "when it exits 0 the announced version must equal the reference rendering of the README bump model's "
        "result and must read back (reference recogniser, unique parse) as exactly those parts. Non-trivial: >= 2 "
        "flags, or the date crosses a month/year boundary, or the old version lies in the future, or a part was "
        "reset; distinct = distinct case JSON.")
ASSUME = ["reference renderer/recogniser and bump model (harness/refmodel.py, harness/bumpref.py) transcribe the README",
          "patterns are restricted to grammar G (DESIGN.md 3.2): each field once, no ambiguous glueing"]

OFFSETS = [0, 0, 1, 7, 31, 366, -1, -40, -400]
TAGVALS = ["alpha", "beta", "rc", "dev", "post", "final"]


def build(d):
    nodes, state, text = grammar.gen_pattern_and_state(d, safe_seps=False)
    if nodes is None:
        return {"discard": state}
    parts = set(parts_of(nodes))
    flags = {}
    for f in ("major", "minor", "patch"):
        # mostly applicable flags; inapplicable ones (rejected by the CLI) now and then
        flags[f] = d.chance(2, 5) if f.upper() in parts else d.chance(1, 16)
    has_tag = bool(parts & {"TAG", "PYTAG"})
    flags["tag_num"] = d.chance(1, 3) if "NUM" in parts else d.chance(1, 16)
    flags["pin_date"] = d.chance(1, 4)
    flags["pin_increments"] = d.chance(1, 4)
    flags["tag"] = d.choice(TAGVALS) if d.chance(1, 3 if has_tag else 12) else None
    old_date = grammar.date_of(state)
    if d.chance(1, 8):
        new_date = grammar.gen_date(d, wide=old_date.year < 2001 or old_date.year > 2099)
    else:
        off = d.choice(OFFSETS)
        try:
            new_date = old_date + dt.timedelta(days=off)
        except OverflowError:
            new_date = old_date
    if parts & {"WW", "0W", "UU", "0U"} and old_date.timetuple().tm_yday > 7 and d.chance(1, 3):
        # the first days of a year are week 0: an earlier date in the same year, where the week number is 0
        new_date = dt.date(old_date.year, 1, d.int(1, 6))
    if parts & {"YY", "0Y", "GG", "0G"} and not (2001 <= new_date.year <= 2099 and 2001 <= ref_cal(new_date)["year_g"] <= 2099):
        new_date = old_date
    return {"ast": nodes, "state": state, "old": text, "flags": flags, "date": new_date.isoformat()}


def cli_args(case):
    flags = dict(case["flags"])
    if not flags.get("pin_date"):
        flags["date"] = case["date"]
    return ["test", case["old"], pattern_str(case["ast"])] + bv.flag_args(flags)


def model(case):
    f = case["flags"]
    return bumpref.ref_bump(case["ast"], case["state"], major=f["major"], minor=f["minor"], patch=f["patch"],
                            tag=f["tag"], tag_num=f["tag_num"], pin_date=f["pin_date"],
                            pin_increments=f["pin_increments"], date=dt.date.fromisoformat(case["date"]))


def check(case):
    if "discard" in case:
        return discard(case["discard"])
    ast, state, flags = case["ast"], case["state"], case["flags"]
    parts = list(parts_of(ast))
    date = dt.date.fromisoformat(case["date"])
    res = bv.run(cli_args(case), today=date)
    classes = []
    try:
        E = model(case)
    except bumpref.Overflow:
        return ok(classes=("build-id-at-documented-maximum",))
    want = ref_render(ast, E)
    nflags = sum(1 for k in bv.FLAG_NAMES if flags[k]) + (flags["tag"] is not None)
    old_date = grammar.date_of(state)
    in_future = (not flags["pin_date"]) and bumpref.cal_tuple(parts, state) > bumpref.cal_tuple(parts, ref_cal(date))
    crosses = (not flags["pin_date"]) and (old_date.year, old_date.month) != (date.year, date.month)
    was_reset = any(p in bumpref.RESET and E[PART_FIELD[p]] == bumpref.RESET[p] and state[PART_FIELD[p]] != E[PART_FIELD[p]]
                    for p in parts)
    nt = nflags >= 2 or crosses or in_future or was_reset
    if in_future:
        classes.append("old-version-in-future")
    if crosses:
        classes.append("crosses-month-or-year")
    if was_reset:
        classes.append("part-reset")
    if flags["pin_date"]:
        classes.append("pin-date")
    if res.crashed:
        return viol("test-crashes", {"exc": (res.exc or "")[:60]}, {"args": cli_args(case), "res": res.summary()}, nt=nt)
    if res.exit != 0:
        classes.append("declined")
        inapplicable = any(flags[k] and k.upper() not in parts for k in ("major", "minor", "patch"))
        msg = res.err
        if inapplicable:
            why = "inapplicable-flag"
        elif "non-final --tag=<tag> is needed" in msg:
            why = "tag-num-on-final"
        elif "New version must be greater" in msg:
            why = "gate-not-greater"
        elif "version did not change" in msg:
            why = "unchanged"
        elif "Invalid version" in msg:
            why = "gate-invalid-version"
        else:
            why = "other"
        classes.append("declined:" + why)
        if want != case["old"] and not inapplicable:
            from harness import pep440ref
            E_final_num = E["tag"] == "final" and E["num"] != 0 and "NUM" in parts
            pe = ref_parse_all(ast, want)
            reads_back = len(pe) == 1 and all(
                (int(with_defaults(ast, pe[0])[PART_FIELD[p]]) if p == "BLD" else with_defaults(ast, pe[0])[PART_FIELD[p]])
                == (int(E[PART_FIELD[p]]) if p == "BLD" else E[PART_FIELD[p]]) for p in parts)
            greater = pep440ref.key(want) > pep440ref.key(case["old"])
            if reads_back and greater and not E_final_num and why in ("unchanged", "gate-not-greater"):
                # bumpver computed a version that is equal to / not greater than the old one although the README rules
                # give a readable, strictly greater one: the parts it computed are not the prescribed ones
                return viol("declined-although-readme-rules-give-a-greater-version:" + why,
                            {"flags": sorted(k for k in bv.FLAG_NAMES if flags[k]) + (["tag"] if flags["tag"] else []), "why": why},
                            {"args": cli_args(case), "expected": want, "res": res.summary(400)}, nt=nt, classes=tuple(classes))
            if reads_back and greater and not E_final_num and why != "tag-num-on-final":
                # other refusals (e.g. the gate rejecting a week-53 rendering, finding F1 of C02) are counted, not reported:
                # no property demands that every bump succeeds
                classes.append("declined-though-model-valid:" + why)
            else:
                classes.append("declined-model-differs:" + ("not-greater" if not greater else "not-readable" if not reads_back else "tag-num-final"))
        return ok(nt=False, classes=tuple(classes))
    classes.append("bumped")
    N = res.new_version
    if N is None:
        return viol("exit0-without-version", {}, {"args": cli_args(case), "res": res.summary()}, nt=nt)
    ps = ref_parse_all(ast, N)
    sig = {"flags": sorted(k for k in bv.FLAG_NAMES if flags[k]) + (["tag"] if flags["tag"] else []),
           "tag": flags["tag"]}
    detail = {"args": cli_args(case), "announced": N, "expected": want, "expected_state": {PART_FIELD[p]: E[PART_FIELD[p]] for p in parts}}
    if len(ps) == 0:
        return viol("result-not-a-version-of-the-pattern", sig, detail, nt=nt, classes=tuple(classes))
    got = [with_defaults(ast, p) for p in ps]
    # BUILD: the rule is "strictly increased" (and never shorter) - the exact successor is lexid's business (C17)
    if len(got) == 1 and "bid" in got[0] and any(p in ("BUILD", "BLD") for p in parts):
        g = got[0]["bid"]
        if int(g) > int(state["bid"]) and ("BLD" in parts or len(g) >= len(state["bid"])):
            E = dict(E, bid=g)
            want = ref_render(ast, E)
            detail["expected"] = want
    diffs = set()
    for g in got:
        for p in parts:
            f = PART_FIELD[p]
            a, b = g.get(f), E[f]
            if p == "BLD":
                a, b = int(a), int(b)
            if a != b:
                diffs.add(p)
    if diffs or N != want:
        sig["parts"] = sorted(diffs)
        detail["read_back"] = got
        first = next((p for p in parts if p in diffs), None)
        sig["first_part"] = first
        if first is None:
            bucket = "text-differs-parts-equal"
        elif flags["pin_date"] and PART_FIELD[first] in ("week_w", "week_u") and state[PART_FIELD[first]] == 0:
            bucket = "pin-date-replaces-week-zero"
        elif flags["tag"] == "final" and flags["tag_num"] and "NUM" in diffs:
            bucket = "tag-num-with-tag-final-glues-num-onto-version"
        else:
            bucket = "parts-differ:first=" + first
        return viol(bucket, sig, detail, nt=nt, classes=tuple(classes))
    if N == case["old"]:
        return viol("exit0-but-version-unchanged", sig, detail, nt=nt, classes=tuple(classes))
    return ok(nt=nt, classes=tuple(classes))


def selftest():
    err = selftest_calendar()
    if err:
        raise HarnessError(err)
    for a, b in [("1001", "1002"), ("1999", "22000"), ("09999", "110000"), ("0999", "22000"), ("9", "1010"),
                 ("01500", "01501"), ("999", "22000"), ("22999", "23000"), ("29999", "330000")]:
        if bumpref.next_build(a) != b:
            raise HarnessError(f"lexid reference: next_build({a}) = {bumpref.next_build(a)}, expected {b}")


PARTS = [
    Part("test-cli", check=check, strategy=lambda: dp.cases(build, size=192), n={"quick": 64000, "thorough": 1600000}),
    fuzz.fuzz_part("test-cli-coverage-guided", build, check, size=192, runs={"quick": 12000, "thorough": 400000}),
]

MANIFEST = {
    "text": "Generated-input search over (grammar pattern, reachable state, flag subset, tag, date offset) through the "
            "real `bumpver test` command; oracle is an independent README-derived bump model plus reference "
            "renderer/recogniser (text equality and part-wise read-back).",
    "note": "Trusts harness/refmodel.py + harness/bumpref.py as a faithful transcription of the README rules; nothing is "
            "asserted when the CLI declines to bump (declines are counted in coverage.classes).",
    "technique": "property-based testing (Hypothesis, grammar-decoded cases) against a reference model; plus coverage-guided fuzzing (atheris/libFuzzer) of the same byte decoder and oracle",
}
