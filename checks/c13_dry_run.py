"""C13 - --dry changes nothing and shows exactly what a real run would do."""
import os
import shutil
import tempfile
import datetime as dt

from harness.core import Part, ok, viol, discard
from harness import dp, bv, grammar, projgen, fakevcs, udiff
from harness.refmodel import pattern_str

ID = "C13"
LEVEL = "exploration"
RULE = ("Projects as for C03/C04 with consistent line endings (pure LF, CRLF or CR; with/without final newline; Unicode "
        "filler in a third of the cases; filler lines that look like diff syntax: '--- x', '+++ x', '@@ -1 +1 @@', leading "
        "blank; long gaps so that files get several hunks) x bump flag sets x v2 and legacy patterns, commit off or commit on "
        "with a clean fake git. Oracle: `update --dry` leaves every file byte-identical and issues no add/commit/tag/push and "
        "runs no hook (also when one pattern does not match or a message template cannot be rendered); when it exits 0 its stdout is parsed by a strict unified-diff parser (hunk counts drive the parse) and "
        "applied to the snapshot with verification of every context/removed line; the real `update` with the same arguments "
        "must exit 0 and leave every file byte-equal to the applied result (files not mentioned: unchanged). Non-trivial: the "
        "diff has >= 2 files or >= 2 hunks.")
ASSUME = ["stdout of the dry run carries only the diff (logging goes to stderr)", "fake git for the commit-on variant"]

DIFFISH = ["--- x", "+++ x", "@@ -1 +1 @@", " leading blank", "-removed?", "+added?", "--- bumpver.toml", "@@", "---", "+++ b/file",
           "\x1b[31mred\x1b[0m text", "esc \x1b[1m bold", "\x1b[2K"]


def build(d):
    legacy = d.chance(1, 4)
    uni = d.chance(1, 3)
    regimes = [d.choice(["lf", "crlf", "cr"])]
    if legacy:
        spec, flags, date = projgen.gen_legacy_project(d, regimes=regimes, max_files=4)
    else:
        pep = d.chance(1, 3)
        nodes, state, old = (grammar.gen_pep440_pattern_and_state(d) if pep else grammar.gen_pattern_and_state(d, safe_seps=True))
        if nodes is None:
            return {"discard": state}
        spec = projgen.gen_project(d, nodes, state, pep_shaped=pep, max_files=4, max_patterns=3, unicode_text=uni, regimes=regimes, share_patterns=True)
        spec["legacy"] = False
        flags, date = projgen.gen_bump(d, nodes, state)
    # stretch the files: gaps (several hunks) and lines that look like diff syntax
    for f in spec["files"]:
        f["bom"] = bool(f.get("bom")) or (uni and d.chance(1, 6))  # a UTF-8 byte order mark in front of the first line
        new_lines, new_seps = [], []
        sep = {"lf": "\n", "crlf": "\r\n", "cr": "\r"}[f["regime"]]
        for segs, s in zip(f["lines"], f["seps"]):
            for _ in range(d.choice([0, 0, 0, 1, 4, 9])):
                new_lines.append([["t", d.choice(DIFFISH) if d.chance(1, 3) else projgen.gen_filler(d, False)]])
                new_seps.append(sep)
            new_lines.append(segs)
            new_seps.append(s if s else sep)
        if f["seps"][-1] == "":
            new_seps[-1] = ""
        f["lines"], f["seps"] = new_lines, new_seps
        if uni:
            # str.splitlines separators other than \n / \r must not appear: bumpver splits on the detected separator only,
            # and so does the applier; they are harmless, but keep LF/CR out of filler
            pass
    # now and then: one (file, pattern) that does not match, or a message template that cannot be rendered - whatever
    # the dry run then says (normally: an error), a dry run that exits 0 promises a real run that exits 0
    fault = None
    if d.chance(1, 12):
        fi = d.int(0, len(spec["files"]) - 1)
        occ = sorted({v for segs in spec["files"][fi]["lines"] for k, v in segs if k == "o"})
        if occ:
            fault = {"kind": "nomatch", "file": fi, "pattern": d.choice(occ)}
    k = d.int(0, 11)
    msg = d.choice(["release {version}", "v{new_version", "{0} {new_version}", "done }", "{old_version.major}"]) if k == 0 else \
        d.choice(["release {new_version}", "bump OLD -> NEW"]) if k < 3 else None
    return {"spec": spec, "flags": flags, "date": date, "commit": d.chance(1, 3), "hooks": d.chance(1, 2), "fault": fault, "msg": msg,
            "msg_kind": d.choice(["-c", "--tag-message"]), "remote_tag": d.chance(1, 5)}


def check(case):
    if "discard" in case:
        return discard(case["discard"])
    spec = case["spec"]
    state = spec["state"]
    if not spec["legacy"] and projgen.construction_ok(spec, state):
        return discard("construction-self-check")
    date = dt.date.fromisoformat(case["date"])
    flags = dict(case["flags"])
    if not flags.get("pin_date"):
        flags["date"] = case["date"]
    args = bv.flag_args(flags)
    if case.get("msg") is not None:
        args += [case["msg_kind"], case["msg"]]
    classes = ["legacy" if spec["legacy"] else "v2", "commit-on" if case["commit"] else "commit-off"]
    if case.get("fault"):
        from checks.c06_failed_update_untouched import apply_fault
        spec = apply_fault(spec, case["fault"], "remove")
        classes.append("with-non-matching-pattern")
    if case.get("msg") is not None:
        classes.append("with-message-template")
    tmp = tempfile.mkdtemp(prefix="c13_")
    fvdir = None
    fetching = False
    try:
        options = {}
        env = None
        fv = None
        if case["commit"]:
            options = {"commit": True, "tag": True, "push": False}
        projgen.materialize(spec, tmp, state, options)
        if case["commit"]:
            fvdir = tempfile.mkdtemp(prefix="c13fv_")
            fv = fakevcs.FakeVCS(tmp, "git", state_dir=fvdir)
            fv.set("status", "")
            if case.get("remote_tag") and not spec["legacy"]:
                # a remote that holds a newer version tag which only a fetch brings in: the dry run and the real run
                # must start from the same version (fetching is not a mutating command; --no-fetch is not given)
                from harness import bumpref
                from harness.refmodel import ref_render
                try:
                    newer = ref_render(spec["ast"], bumpref.ref_bump(spec["ast"], state, major=True, minor=True, patch=True, date=date))
                except bumpref.Overflow:
                    newer = None
                if newer and not any(c.isspace() for c in newer):
                    fv.set("remote", "git@example.org:x/y.git\n")
                    fv.set("tags_all", "")
                    fv.set("after_fetch.tags_all", newer + "\n")
                    fetching = True
                    classes.append("newer-tag-arrives-with-fetch")
            if case["hooks"]:
                pre = fv.install_hook("pre-hook")
                post = fv.install_hook("post-hook")
                args = args + ["--pre-commit-hook", pre, "--post-commit-hook", post]
            env = fv.env()
        before = projgen.snapshot(tmp)
        nofetch = [] if fetching else ["--no-fetch"]
        dry = bv.run(["update"] + nofetch + ["--dry"] + args, cwd=tmp, env=env, today=date)
        mid = projgen.snapshot(tmp)
        detail = {"args": args, "pattern": spec.get("pattern_text") or pattern_str(spec["ast"]), "dry": dry.summary(1500)}
        sig = {"legacy": spec["legacy"], "commit": case["commit"]}
        if mid != before:
            return viol("dry-run-changed-files", sig, dict(detail, changed=projgen.diff_snap(before, mid)), classes=tuple(classes))
        if fv:
            bad = [rec for rec in fv.records() if fakevcs.kind_of(rec) in fakevcs.MUTATING or fakevcs.kind_of(rec).startswith("hook")]
            if bad:
                return viol("dry-run-ran-mutating-vcs-command-or-hook", sig, dict(detail, log=bad), classes=tuple(classes))
            fv.reset_log()
            if fetching:
                # the real run starts from the same remote state as the dry run did
                fv.set("tags_all", "")
        if dry.exit != 0:
            classes.append("dry-declined")
            return ok(nt=False, classes=tuple(classes))
        try:
            files = udiff.parse(dry.out)
        except udiff.DiffError as ex:
            return viol("dry-output-not-a-faithful-unified-diff", sig, dict(detail, error=str(ex)), classes=tuple(classes))
        regime = {f["path"]: f["regime"] for f in spec["files"]}
        regime["bumpver.toml"] = "lf"
        applied = dict(before)
        nhunks = 0
        seen_paths = set()
        for path, hunks in files:
            if path not in before:
                return viol("diff-names-unknown-file", sig, dict(detail, path=path), classes=tuple(classes))
            if path in seen_paths:
                return viol("diff-names-file-twice", sig, dict(detail, path=path), classes=tuple(classes))
            seen_paths.add(path)
            sep = {"lf": "\n", "crlf": "\r\n", "cr": "\r"}[regime.get(path, "lf")]
            text = before[path].decode("utf-8")
            if sep not in text:
                sep = "\n"  # a file without any separator: bumpver falls back to LF
            try:
                new_lines = udiff.apply(text.split(sep), hunks)
            except udiff.DiffError as ex:
                return viol("diff-does-not-apply-to-current-files", sig, dict(detail, path=path, error=str(ex)), classes=tuple(classes))
            applied[path] = sep.join(new_lines).encode("utf-8")
            nhunks += len(hunks)
        nt = len(files) >= 2 or nhunks >= 2
        if nhunks > len(files):
            classes.append("file-with-several-hunks")
        real = bv.run(["update"] + nofetch + args, cwd=tmp, env=env, today=date)
        after = projgen.snapshot(tmp)
        detail["real"] = real.summary(400)
        if real.exit != 0:
            return viol("real-run-fails-after-successful-dry-run", sig, detail, nt=nt, classes=tuple(classes))
        if after != applied:
            ch = projgen.diff_snap(applied, after)
            p0 = ch[0]
            return viol("real-run-differs-from-applied-diff", sig,
                        dict(detail, files=ch, real_bytes=repr(after.get(p0, b""))[:600], applied_bytes=repr(applied.get(p0, b""))[:600]),
                        nt=nt, classes=tuple(classes))
        return ok(nt=nt, classes=tuple(classes))
    finally:
        shutil.rmtree(tmp, ignore_errors=True)
        if fvdir:
            shutil.rmtree(fvdir, ignore_errors=True)


PARTS = [
    Part("dry-vs-real", check=check, strategy=lambda: dp.cases(build, size=1000), n={"quick": 8000, "thorough": 200000}, max_discard=0.1),
]

MANIFEST = {
    "text": "Generated projects (incl. lines that look like diff syntax and multi-hunk files): the dry run must not touch any "
            "byte nor issue a mutating VCS command or hook; its stdout is parsed by a strict unified-diff applier and the "
            "result compared byte for byte with what the real run produces.",
    "note": "Consistent line endings only (as the property says). Fake git for the commit-on variant. Sampled.",
    "technique": "property-based testing (Hypothesis) with a differential oracle: dry-run diff applied by an independent strict applier vs real run",
}
