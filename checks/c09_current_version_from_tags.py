"""C09 - the current version is the greatest matching tag in scope."""
import os
import shutil
import tempfile
import datetime as dt

from harness.core import Part, ok, viol, discard
from harness import dp, bv, grammar, projgen, fakevcs, gitbox, pep440ref
from harness.refmodel import PART_FIELD, parts_of, pattern_str, ref_render, ref_parse_all
from checks.c01_bump_gate import render_forced, render_leading_zero

ID = "C09"
LEVEL = "exploration"
RULE = ("One Hypothesis binary draw is decoded into (grammar pattern, base state = config version, 0..30 tags: valid versions "
        "of the pattern below/equal/above the config value, PEP 440-equal spellings accepted by the same pattern (optional "
        "zero group written out, leading zeros), versions of other schemes, junk, near-misses (valid + trailing text), "
        "calendar-impossible dates; each tag reachable from HEAD or on another branch only; tag scope default/global/branch given in the config, by --tag-scope or both; "
        "--ignore-vcs-tag on/off; bump flags). Bulk: fake git serving `tag --list` / `tag --list --merged`; sample: real git "
        "repositories with the tags on two branches. Oracle (reference model): M = in-scope tags with a full reference parse; "
        "expected start = config value if --ignore-vcs-tag or M is empty, max(M) for global/branch, max(config, max(M)) for "
        "default (order: packaging.version / legacy key); `show` and `update --dry` must report a member of the arg-max set "
        "and never crash; when `update --dry` exits 0 the new version is not the name of any tag on any branch. "
        "Non-trivial: >= 2 matching tags and >= 1 non-matching tag.")
ASSUME = ["reference recogniser decides which tags match (week-53 tags are not generated: recorded finding F1 of C02)",
          "reference order harness/pep440ref.py", "fake git for the bulk (argv/outputs), real git for a sample"]

OTHER = ["1.2.3", "v2020.1001", "release-5", "0.0.1", "v1", "2021.12", "9999.99.99", "v2099.9999-rc", "1.0.0-alpha.1", "latest", "stable"]
JUNK = ["x", "tip", "v", "v.", "1..2", "--", "abc-def", "2020", "20200101", "v1.2.3.4.5.6", "a1b2", "tmp_1", "01", "0"]
SAFE_TAG_CHARS = set("abcdefghijklmnopqrstuvwxyzABCDEFGHIJKLMNOPQRSTUVWXYZ0123456789._+-/")


def near_states(d, state, parts):
    s = dict(state)
    how = d.int(0, 5)
    date = grammar.date_of(state)
    if how == 0:
        f = d.choice(["major", "minor", "patch", "inc0", "num"])
        s[f] = max(0, s[f] + d.choice([-1, 1, 1, 2, 10]))
    elif how == 1:
        try:
            nd = date + dt.timedelta(days=d.choice([-400, -31, -1, 1, 31, 400]))
            if 2001 <= nd.year <= 2099:
                s = dict(s, **grammar.state_from(nd))
                for k in ("major", "minor", "patch", "inc0", "inc1", "num", "bid", "tag"):
                    s[k] = state[k]
        except OverflowError:
            pass
    elif how == 2:
        s["tag"] = d.choice(["final", "dev", "alpha", "beta", "rc", "post"])
        if s["tag"] == "final":
            s["num"] = 0
    elif how == 3:
        n = int(s["bid"])
        s["bid"] = str(max(1, n + d.choice([-1, 1, 5]))).zfill(len(s["bid"]))
        s["inc1"] = max(1, s["inc1"] + d.choice([-1, 1]))
    elif how == 4:
        s = grammar.gen_state(d, [["part", p] for p in parts])
        if {"YY", "0Y", "GG", "0G"} & set(parts) and not (2001 <= grammar.date_of(s).year <= 2099):
            s = dict(state)
    if any(s.get(f) == 53 for f in ("week_w", "week_u")):
        return dict(state)
    return s


def build(d, real=False):
    nodes, state, text = grammar.gen_pattern_and_state(d, safe_seps=True)
    if nodes is None:
        return {"discard": state}
    if any(state.get(f) == 53 for f in ("week_w", "week_u")):
        return {"discard": "week-53"}
    parts = list(parts_of(nodes))
    tags = []
    n = d.choice([0, 1, 2, 3, 5, 8, 12, 20, 30])
    for _ in range(n):
        k = d.int(0, 9)
        if k < 5:
            t = ref_render(nodes, near_states(d, state, parts))
        elif k == 5:
            st = near_states(d, state, parts)
            cand = [render_forced(nodes, st)] + [render_leading_zero(nodes, st, i) for i in range(2)]
            t = d.choice(cand)
        elif k == 6:
            t = d.choice(OTHER)
        elif k == 7:
            t = d.choice(JUNK)
        elif k == 8:
            t = ref_render(nodes, near_states(d, state, parts)) + d.choice([".x", "-1", "0", "+local", "a"])
        else:
            fields = {PART_FIELD[p] for p in parts}
            st = dict(near_states(d, state, parts))
            if {"month", "dom"} <= fields:
                st["month"], st["dom"] = d.choice([[2, 30], [2, 31], [4, 31], [11, 31]])
                st["major"] += 3
            elif "doy" in fields:
                st["doy"] = 366
                st["year_y"] = st["year_y"] - st["year_y"] % 4 + 1
                if d.chance(1, 3) and not ({"YY", "0Y"} & set(parts)):
                    st["year_y"] = 9999  # day 366 of the last representable year
            t = ref_render(nodes, st) if 1000 <= st["year_y"] <= 9999 else "x"
        if real and (not t or set(t) - SAFE_TAG_CHARS or t.startswith("-") or t.startswith("/") or t.endswith("/") or t.endswith(".")
                     or ".." in t or "//" in t or t.endswith(".lock") or "/." in t or t.startswith(".")):
            continue
        if any(c.isspace() for c in t) or not t:
            continue
        if t not in [x[0] for x in tags]:
            tags.append([t, d.chance(2, 3)])
    flags, date = projgen.gen_bump(d, nodes, state)
    scope = d.choice(["default", "global", "branch"])
    # the scope may come from the config, from --tag-scope, or from both (the command line wins)
    how = d.choice(["config", "config", "cli", "both"])
    cfg_scope = scope if how == "config" else None if how == "cli" else d.choice(["default", "global", "branch"])
    cli_scope = None if how == "config" else scope
    return {"ast": nodes, "state": state, "old": text, "tags": tags, "scope": scope, "cfg_scope": cfg_scope, "cli_scope": cli_scope,
            "ignore": d.chance(1, 4), "flags": flags, "date": date,
            # real repositories only: .git as a directory, or as a "gitdir:" file (linked worktrees, submodules, --separate-git-dir)
            "layout": d.choice(["plain", "plain", "gitfile"]) if real else "plain"}


def expectation(case):
    ast, cfgv = case["ast"], case["old"]
    in_scope = [t for t, merged in case["tags"] if merged or case["scope"] != "branch"]
    M = [t for t in in_scope if ref_parse_all(ast, t)]
    if case["ignore"] or not M:
        return [cfgv], M
    top = max(pep440ref.key(t) for t in M)
    best = [t for t in M if pep440ref.key(t) == top]
    if case["scope"] == "default":
        if top > pep440ref.key(cfgv):
            return best, M
        return [cfgv], M
    return best, M


def judge(case, run, real):
    """run(args) -> bv.Res"""
    ast = case["ast"]
    pattern = pattern_str(ast)
    # `show` has no --tag-scope option: it follows the config; `update` follows the command line if given
    show_case = dict(case, scope=case.get("cfg_scope") or "default") if "cfg_scope" in case else case
    expect_show, _ = expectation(show_case)
    expect, M = expectation(case)
    all_tags = [t for t, _m in case["tags"]]
    nonmatching = [t for t in all_tags if t not in M and not ref_parse_all(ast, t)]
    nt = len(M) >= 2 and len(nonmatching) >= 1
    classes = ["scope:" + case["scope"]] + (["scope-from-command-line"] if case.get("cli_scope") else [])
    if case["ignore"]:
        classes.append("ignore-vcs-tag")
    sig = {"scope": case["scope"], "ignore": case["ignore"], "real": real}
    ign = ["--ignore-vcs-tag"] if case["ignore"] else []
    r = run(["show", "--no-fetch"] + ign)
    detail = {"pattern": pattern, "config_version": case["old"], "tags": case["tags"], "scope": case["scope"], "ignore": case["ignore"],
              "cfg_scope": case.get("cfg_scope"), "cli_scope": case.get("cli_scope"),
              "expected_one_of": expect, "expected_by_show": expect_show, "show": r.summary(500)}
    if r.crashed:
        return viol("show-crashes", dict(sig, exc=(r.exc or "")[:40]), detail, nt=nt, classes=tuple(classes))
    cur = r.field("Current Version", "out")
    if r.exit != 0 or cur is None:
        return viol("show-fails", sig, detail, nt=nt, classes=tuple(classes))
    if cur not in expect_show:
        rel = "config" if cur == case["old"] else "tag" if cur in all_tags else "other"
        return viol("wrong-current-version:reported-" + rel, dict(sig, reported=rel), dict(detail, reported=cur), nt=nt, classes=tuple(classes))
    flags = dict(case["flags"])
    flags["pin_date"] = False
    flags["date"] = case["date"]
    cli_scope = ["--tag-scope", case["cli_scope"]] if case.get("cli_scope") else []
    u = run(["update", "--no-fetch", "--dry"] + cli_scope + ign + bv.flag_args(flags))
    detail["update"] = u.summary(500)
    if u.crashed and "max lexical version reached" in (u.exc or ""):
        return ok(nt=False, classes=tuple(classes + ["build-id-at-documented-maximum"]))
    if u.crashed:
        return viol("update-crashes", dict(sig, exc=(u.exc or "")[:40]), detail, nt=nt, classes=tuple(classes))
    if u.exit == 0:
        classes.append("update-accepted")
        oldv, newv = u.old_version, u.new_version
        if oldv not in expect:
            return viol("wrong-start-version-in-update", sig, dict(detail, reported=oldv), nt=nt, classes=tuple(classes))
        if newv in all_tags:
            return viol("new-version-equals-existing-tag", sig, dict(detail, new_version=newv), nt=nt, classes=tuple(classes))
        if not pep440ref.key(newv) > pep440ref.key(oldv):
            return viol("new-version-not-greater-than-start-version", sig, dict(detail, new_version=newv, start=oldv), nt=nt, classes=tuple(classes))
    return ok(nt=nt, classes=tuple(classes))


def config_text(case):
    cfg_scope = case["cfg_scope"] if "cfg_scope" in case else case["scope"]
    return projgen.toml_config({"current_version": case["old"], "version_pattern": pattern_str(case["ast"]),
                                "options": {"tag_scope": cfg_scope} if cfg_scope else {}, "files": []})


def check_fake(case):
    if "discard" in case:
        return discard(case["discard"])
    tmp = tempfile.mkdtemp(prefix="c09_")
    fvdir = tempfile.mkdtemp(prefix="c09fv_")
    try:
        projgen.write_file(tmp, "bumpver.toml", config_text(case))
        fv = fakevcs.FakeVCS(tmp, "git", state_dir=fvdir)
        fv.set("tags_all", "".join(t + "\n" for t, _m in case["tags"]))
        fv.set("tags_merged", "".join(t + "\n" for t, m in case["tags"] if m))
        env = fv.env()
        date = dt.date.fromisoformat(case["date"])
        return judge(case, lambda args: bv.run(args, cwd=tmp, env=env, today=date), False)
    finally:
        shutil.rmtree(tmp, ignore_errors=True)
        shutil.rmtree(fvdir, ignore_errors=True)


def check_fake_hg(case):
    """the same model against the hg command set (fake hg: `hg tags` prints 'name   rev:node', the branch listing
    prints one tag per line)"""
    if "discard" in case:
        return discard(case["discard"])
    tmp = tempfile.mkdtemp(prefix="c09h_")
    fvdir = tempfile.mkdtemp(prefix="c09hfv_")
    try:
        projgen.write_file(tmp, "bumpver.toml", config_text(case))
        fv = fakevcs.FakeVCS(tmp, "hg", state_dir=fvdir)
        fv.set("tags_all", "tip                              99:0123456789ab\n" + "".join("%-32s %d:%012x\n" % (t, i, i * 7919) for i, (t, _m) in enumerate(case["tags"])))
        fv.set("tags_merged", "".join(t + "\n" for t, m in case["tags"] if m))
        env = fv.env()
        date = dt.date.fromisoformat(case["date"])
        return judge(case, lambda args: bv.run(args, cwd=tmp, env=env, today=date), False)
    finally:
        shutil.rmtree(tmp, ignore_errors=True)
        shutil.rmtree(fvdir, ignore_errors=True)


def check_real(case):
    if "discard" in case:
        return discard(case["discard"])
    tmp = tempfile.mkdtemp(prefix="c09r_")
    gitdir = None
    try:
        projgen.write_file(tmp, "bumpver.toml", config_text(case))
        gitbox.init(tmp)
        # tags reachable from HEAD go on main; the others on a side branch that is never merged
        merged = [t for t, m in case["tags"] if m]
        other = [t for t, m in case["tags"] if not m]
        for i, t in enumerate(merged):
            if i % 3 == 0:
                gitbox.git(tmp, "commit", "-q", "--allow-empty", "-m", "m%d" % i)
            gitbox.git(tmp, "tag", t)
        if other:
            gitbox.git(tmp, "checkout", "-q", "-b", "side")
            for i, t in enumerate(other):
                gitbox.git(tmp, "commit", "-q", "--allow-empty", "-m", "s%d" % i)
                gitbox.git(tmp, "tag", t)
            gitbox.git(tmp, "checkout", "-q", "main")
        gitbox.git(tmp, "commit", "-q", "--allow-empty", "-m", "head")
        if case.get("layout") == "gitfile":
            gitdir = tmp + "_gitdir"
            shutil.move(os.path.join(tmp, ".git"), gitdir)
            projgen.write_file(tmp, ".git", "gitdir: %s\n" % gitdir)
            gitbox.git(tmp, "tag", "--list")  # (raises if git does not accept the layout)
        env = gitbox.env(tmp)
        date = dt.date.fromisoformat(case["date"])
        out = judge(case, lambda args: bv.run(args, cwd=tmp, env=env, today=date), True)
        if case.get("layout") == "gitfile":
            out.classes = tuple(out.classes) + ("dot-git-is-a-file",)
        return out
    finally:
        shutil.rmtree(tmp, ignore_errors=True)
        if gitdir:
            shutil.rmtree(gitdir, ignore_errors=True)


PARTS = [
    Part("fake-git-tags", check=check_fake, strategy=lambda: dp.cases(build, size=700), n={"quick": 12000, "thorough": 400000}, max_discard=0.1),
    Part("fake-hg-tags", check=check_fake_hg, strategy=lambda: dp.cases(build, size=700), n={"quick": 2400, "thorough": 60000}, max_discard=0.1),
    Part("real-git-tags", check=check_real, strategy=lambda: dp.cases(lambda d: build(d, True), size=700), n={"quick": 160, "thorough": 3000}, max_discard=0.1),
]

MANIFEST = {
    "text": "Generated tag sets (valid, PEP 440-equal spellings, other schemes, junk, near-misses, impossible dates) x scopes x "
            "--ignore-vcs-tag, through `show` and `update --dry` against a fake git (bulk) and real repositories with two "
            "branches (sample); a reference model computes the admissible start versions.",
    "note": "Which tags 'match the pattern' is decided by the reference recogniser; week-53 tags are not generated (finding F1). "
            "hg only through the fake executable (listing formats as documented for `hg tags` / `hg log --template`).",
    "technique": "property-based testing (Hypothesis) against a reference model; differential sample with real git",
}
