"""C15 - {pep440_version} always denotes the same version as {version}."""
import os
import re
import shutil
import logging
import tempfile
import datetime as dt

from harness.core import Part, ok, viol, discard
from harness import dp, bv, grammar, projgen, pep440ref
from harness.refmodel import parts_of, pattern_str

from bumpver import v2version, v2patterns
from checks.c02_render_roundtrip import vinfo_from_state

ID = "C15"
LEVEL = "exploration"
RULE = ("One Hypothesis binary draw is decoded into (PEP 440-shaped pattern: prefix ''/'v', release parts joined by '.' or "
        "glued fixed-width parts, release tag last with separator '' - . _, nested optional groups; reachable state with all "
        "tags x NUM; bump flags). A project holds a {version} line and a {pep440_version} line (own lines or one shared line); "
        "the old {pep440_version} text is what bumpver itself renders for the old state. `update`, then a second `update`. "
        "Oracle when the announced N is valid PEP 440: the pep text T is valid PEP 440, Version(T) == Version(N) incl. "
        "pre/post/dev, str(Version(T)) equals the PEP440 value printed by `test` and `show`; T has no 'v' prefix, no leading "
        "zeros in dot-separated numeric components after the first, the release tag in short form (a b rc post dev) followed "
        "by digits; the second update finds the text again (derived search pattern accepts it). Non-trivial: tag != final "
        "or a zero-padded part is present.")
ASSUME = ["packaging.version as the PEP 440 reference", "patterns of the PEP 440-shaped sub-grammar only (DESIGN.md C15): a "
          "'-' between numeric parts or a tag before a numeric part is outside the documented usage"]

TAIL = re.compile(r"^\d+(?:\.\d+)*(?:\.?(?:a|b|rc)\d+)?(?:\.?post\d+)?(?:\.?dev\d+)?$")


def build(d):
    nodes, state, text = grammar.gen_pep440_pattern_and_state(d)
    if nodes is None:
        return {"discard": state}
    flags, date = projgen.gen_bump(d, nodes, state)
    # "bare": the {pep440_version} pattern has no literal after the placeholder and the text ends its line
    return {"ast": nodes, "state": state, "old": text, "flags": flags, "date": date, "shared_line": d.chance(1, 3), "bare": d.chance(1, 3),
            # "combined": ONE search pattern that holds both placeholders (archive/{version}/pkg-{pep440_version}.tgz)
            "combined": d.chance(1, 6)}


def readme_rules(T):
    """-> None | reason"""
    if T.startswith("v") or T.startswith("V"):
        return "has-v-prefix"
    comps = T.split(".")
    for c in comps[1:]:
        m = re.match(r"\d+", c)
        if m and len(m.group()) > 1 and m.group().startswith("0"):
            return "leading-zero-in-component"
    if not TAIL.match(T):
        return "tag-not-in-short-form-with-number"
    return None


def check(case):
    if "discard" in case:
        return discard(case["discard"])
    ast, state, flags = case["ast"], case["state"], dict(case["flags"])
    pattern = pattern_str(ast)
    parts = list(parts_of(ast))
    old = case["old"]
    date = dt.date.fromisoformat(case["date"])
    if not flags.get("pin_date"):
        flags["date"] = case["date"]
    # fields that the pattern does not carry take their documented defaults (a tag without a TAG part is unreachable)
    from harness import bumpref
    from harness.refmodel import PART_FIELD
    present = {PART_FIELD[p] for p in parts}
    state = dict(state, **{f: v for f, v in bumpref.DEFAULTS.items() if f not in present})
    nt = state["tag"] != "final" or any(p in ("0M", "0D", "00J", "0W", "0U", "0V", "0Y", "0G", "BUILD") for p in parts)
    classes = []
    # set-up: what bumpver itself writes for the old state
    logging.disable(logging.CRITICAL)
    try:
        pep_pattern = v2patterns.normalize_pattern(pattern, "{pep440_version}")
        old_pep = v2version.format_version(vinfo_from_state(state), pep_pattern)
    except Exception as ex:
        return viol("pep440-pattern-derivation-raises", {"exc": type(ex).__name__}, {"pattern": pattern, "exc": repr(ex)}, nt=nt)
    finally:
        logging.disable(logging.NOTSET)
    detail = {"pattern": pattern, "derived": pep_pattern, "old": old, "old_pep": old_pep}
    for label, N, T in (("old", old, old_pep),):
        bad = judge(N, T, pattern)
        if bad:
            return viol(bad[0] + ":set-up-text", bad[1], dict(detail, **bad[2]), nt=nt)
    tmp = tempfile.mkdtemp(prefix="c15_")
    try:
        bare = case.get("bare") and not case.get("combined")
        combined = bool(case.get("combined"))
        spec = {"current_version": old, "version_pattern": pattern,
                "files": [["f.txt", ['ver="{version}" pep=\'{pep440_version}\''] if combined else
                           ['ver="{version}"', "pep == {pep440_version}" if bare else "pep='{pep440_version}'"]]]}
        projgen.write_file(tmp, "bumpver.toml", projgen.toml_config(spec))
        if combined:
            body = 'x ver="%s" pep=\'%s\' y\n' % (old, old_pep)
        elif bare:
            body = ('x ver="%s" and pep == %s\n' if case["shared_line"] else 'x ver="%s"\nand pep == %s\n') % (old, old_pep)
        else:
            body = ('x ver="%s" and pep=\'%s\' y\n' if case["shared_line"] else 'x ver="%s"\nand pep=\'%s\' y\n') % (old, old_pep)
        projgen.write_file(tmp, "f.txt", body)
        args = ["update", "--no-fetch"] + bv.flag_args(flags)
        r = bv.run(args, cwd=tmp, today=date)
        detail.update(args=args)
        if r.exit != 0:
            if "No match for pattern" in r.err and "pep=" in r.err:
                # (sig: a BUILD value of zero shown through the zero-truncating BLD of the derived pattern - finding F19)
                return viol("derived-pattern-rejects-text-bumpver-renders", {"build_zero_through_bld": "BLD" in pep_pattern and int(state["bid"]) == 0},
                            dict(detail, res=r.summary(800)), nt=nt)
            return ok(nt=False, classes=("update-declined",))
        N = r.new_version
        with open(os.path.join(tmp, "f.txt"), encoding="utf-8") as f:
            text = f.read()
        mv = re.search(r'ver="([^"]*)"', text)
        mp = re.search(r"pep == ([^\n]*)", text) if bare else re.search(r"pep='([^']*)'", text)
        if not mv or not mp or mv.group(1) != N:
            return viol("file-does-not-hold-announced-version", {}, dict(detail, announced=N, file=text), nt=nt)
        T = mp.group(1)
        detail.update(announced=N, pep_text=T)
        bad = judge(N, T, pattern)
        if bad:
            return viol(bad[0], bad[1], dict(detail, **bad[2]), nt=nt)
        if pep440ref.pep440(N) is None:
            return ok(nt=False, classes=("version-not-pep440",))
        canon = str(pep440ref.pep440(N))
        r_show = bv.run(["show", "--no-fetch"], cwd=tmp, today=date)
        shown = r_show.field("PEP440         ", "out")
        r_test = bv.run(["test", old, pattern] + bv.flag_args(flags), today=date)
        tested = r_test.field("PEP440     ", "out") if r_test.exit == 0 else None
        if r_test.exit == 0 and tested is None:
            tested = r_test.new_version  # printed only when it differs from the version itself
        if shown != canon or (r_test.exit == 0 and tested != canon) or str(pep440ref.pep440(T)) != canon:
            return viol("printed-pep440-value-differs", {}, dict(detail, show=shown, test=tested, canonical=canon), nt=nt)
        # second update: the derived search pattern must accept what was written
        later = (date + dt.timedelta(days=400)) if date.year < 2098 else date
        if set(parts) & {"YY", "0Y", "GG", "0G"} and later.year > 2098:
            later = date
        second = ["update", "--no-fetch", "--date", later.isoformat()] + [f for f, p in (("--patch", "PATCH"), ("--minor", "MINOR"), ("--major", "MAJOR")) if p in parts][:1]
        r2 = bv.run(second, cwd=tmp, today=later)
        if r2.exit != 0 and "No match for pattern" in r2.err:
            return viol("derived-pattern-rejects-text-bumpver-renders", {}, dict(detail, second=r2.summary(800)), nt=nt)
        classes.append("second-update-ok" if r2.exit == 0 else "second-update-declined")
        if r2.exit == 0:
            # ... and must have replaced ALL of it: judge the text of the second update as well
            with open(os.path.join(tmp, "f.txt"), encoding="utf-8") as f:
                text2 = f.read()
            mp2 = re.search(r"pep == ([^\n]*)", text2) if bare else re.search(r"pep='([^']*)'", text2)
            N2 = r2.new_version
            bad = judge(N2, mp2.group(1) if mp2 else "", pattern)
            if bad:
                return viol(bad[0] + ":after-second-update", bad[1], dict(detail, second_version=N2, **bad[2]), nt=nt)
        if bare:
            classes.append("bare-pep440-pattern")
        if combined:
            classes.append("both-placeholders-in-one-pattern")
        return ok(nt=nt, classes=tuple(classes))
    finally:
        shutil.rmtree(tmp, ignore_errors=True)


def glued_week_zero(pattern, T):
    """a dot-component after the first that starts with a week part glued to a following part, in week 0:
    '0Y.0WBUILD' -> '15.01001' (recorded finding F13)"""
    comps = pattern.replace("[", "").replace("]", "").split(".")
    for c in comps[1:]:
        if re.match(r"^(0W|0U|WW|UU)[A-Z0]", c):
            return True
    return False


def judge(N, T, pattern=""):
    """-> None | (bucket, sig, detail)"""
    vN = pep440ref.pep440(N)
    if vN is None:
        return None
    vT = pep440ref.pep440(T)
    if vT is None:
        return ("pep440-text-not-valid-pep440", {}, {"version": N, "pep_text": T})
    if vT != vN or vT.pre != vN.pre or vT.post != vN.post or vT.dev != vN.dev or vT.epoch != vN.epoch:
        return ("pep440-text-denotes-another-version", {}, {"version": N, "pep_text": T, "canonical_version": str(vN), "canonical_pep": str(vT)})
    why = readme_rules(T)
    if why:
        return ("pep440-text-breaks-normalisation-rule:" + why, {"rule": why, "glued_week_zero": glued_week_zero(pattern, T)},
                {"version": N, "pep_text": T})
    return None


PARTS = [
    Part("pep440-lines", check=check, strategy=lambda: dp.cases(build, size=200), n={"quick": 12000, "thorough": 300000}),
]

MANIFEST = {
    "text": "Generated PEP 440-shaped patterns x states x bumps through real `update` (twice), `show` and `test`; the "
            "{pep440_version} text is judged by packaging.version (validity, equality incl. pre/post/dev) and by the three "
            "README normalisation rules checked one by one.",
    "note": "Restricted to the PEP 440-shaped sub-grammar; the old {pep440_version} text is produced by bumpver's own renderer "
            "as set-up (and judged as well). Sampled.",
    "technique": "property-based testing (Hypothesis) with a differential oracle vs packaging.version plus rule predicates",
}
