"""C17 - BUILD numbers grow numerically and lexically forever."""
import logging
import datetime as dt

from harness.core import Part, ok, viol, HarnessError
from harness import fuzz, dp, bv, bumpref

from bumpver import version as bv_version
from bumpver import v2version

ID = "C17"
LEVEL = "exploration"
RULE = ("A (exhaustive in both tiers): every starting BUILD id of 1..5 digits incl. zero-padded ones (111,110 ids), "
        "each followed for 3 bumps through "
        "v2version.incr('2020.<id>', 'YYYY.BUILD'). B (Hypothesis): random 6..7 digit ids and boundary ids, 3 bumps, a "
        "sample through `bumpver test`, steps with --pin-increments / --pin-date mixed in (BUILD is not an INC part). C: chains of 4,000 (quick) / 10,000 (thorough) successive bumps from 32 / 208 "
        "starts crossing every digit-length expansion. D: chains of 40 / 400 bumps under six other pattern shapes (BUILD next to "
        "TAG/NUM, MAJOR.MINOR, INC0; the zero-truncating BLD) with --tag-num / --minor / --major / --pin-increments / --pin-date mixed in, "
        "through v2version.incr and through `bumpver test`. Oracle per step: int(new) > int(old); new > old as strings from "
        "the first bumpver-generated value on (at once if the start has >= 4 digits); no leading zero lost (len(new) >= "
        "max(4, len(old)) when int(old) >= 1000, len(new) >= 4 always). Ids "
        "that consist only of nines (>= 4 digits) are the documented maximum: excluded and counted. Non-trivial: the "
        "step crosses a digit-length expansion or the start is zero-padded or shorter than four digits.")
ASSUME = ["own lexical-id reference (harness/bumpref.next_build) written from the lexid documentation"]

DATE = dt.date(2020, 6, 1)


def bump(bid, via_cli=False, pin=None):
    """-> new id | 'OVERFLOW' | ('ERR', info).  pin: None | 'increments' | 'date' (flags that must not stall BUILD)"""
    old = "2020." + bid
    if via_cli:
        extra = ["--pin-increments"] if pin == "increments" else ["--pin-date"] if pin == "date" else ["--date", DATE.isoformat()]
        r = bv.run(["test", old, "YYYY.BUILD"] + extra, today=DATE)
        if r.crashed and "max lexical version reached" in (r.exc or ""):
            return "OVERFLOW"
        if r.exit != 0 or r.new_version is None:
            return ("ERR", r.summary())
        new = r.new_version
    else:
        bv_version.TODAY = DATE
        logging.disable(logging.CRITICAL)
        try:
            new = v2version.incr(old, "YYYY.BUILD", maybe_date=DATE, pin_increments=pin == "increments", pin_date=pin == "date")
        except OverflowError:
            return "OVERFLOW"
        except Exception as ex:
            return ("ERR", repr(ex))
        finally:
            logging.disable(logging.NOTSET)
        if new is None:
            return ("ERR", "incr returned None")
    if not new.startswith("2020."):
        return ("ERR", {"new_version": new})
    return new[5:]


def step_ok(old, new, first_of_chain):
    """-> None or (bucket, detail)"""
    if not new.isdigit():
        return "not-a-number", {"old": old, "new": new}
    if not int(new) > int(old):
        return "not-numerically-greater", {"old": old, "new": new}
    if (not first_of_chain or len(old) >= 4) and not new > old:
        return "not-lexically-greater", {"old": old, "new": new}
    if len(new) < 4 or (int(old) >= 1000 and len(new) < len(old)):
        return "leading-zero-lost", {"old": old, "new": new}
    # NOTE: equality with the lexical-id reference (bumpref.next_build) is deliberately NOT required: the
    # property only demands growth (numeric, lexical) and that no leading zero is lost.
    return None


def follow(start, steps, via_cli=False, pins=None):
    """-> (n_steps, n_nontrivial, violation | None, excluded_at_max)"""
    cur = start
    n = nt = 0
    for i in range(steps):
        new = bump(cur, via_cli, pins[i % len(pins)] if pins else None)
        if new == "OVERFLOW":
            if len(cur) >= 4 and set(cur) == {"9"}:
                return n, nt, None, 1
            return n, nt, ("overflow-below-documented-maximum", {"old": cur}), 0
        if isinstance(new, tuple):
            return n, nt, ("bump-fails", {"old": cur, "info": new[1]}), 0
        n += 1
        if len(new) != len(cur) or (i == 0 and (cur[0] == "0" or len(cur) < 4)):
            nt += 1
        bad = step_ok(cur, new, i == 0)
        if bad:
            return n, nt, bad, 0
        cur = new
    return n, nt, None, 0


def check_block(case):
    """a block of starting ids of one width"""
    w, lo, hi, stride = case["width"], case["lo"], case["hi"], case.get("stride", 1)
    out = ok()
    n = nt = exc = 0
    seen = set()
    for i in range(lo, hi, stride):
        start = str(i).zfill(w)
        a, b, bad, e = follow(start, 3)
        n += a
        nt += b
        exc += e
        if bad and bad[0] not in seen:
            seen.add(bad[0])
            out.more.append((bad[0], {"width": w}, dict(bad[1], start=start)))
    out.n, out.nt_n, out.nt = max(n, 1), nt, True
    out.classes = (("steps", n), ("starts-at-documented-maximum-excluded", exc))
    return out


def blocks(tier):
    res = []
    for w in range(1, 5):
        for lo in range(0, 10 ** w, 500):
            res.append({"width": w, "lo": lo, "hi": min(lo + 500, 10 ** w)})
    for lo in range(0, 10 ** 5, 500):
        res.append({"width": 5, "lo": lo, "hi": lo + 500})
    return res


BOUNDARY = ["999", "0999", "1999", "09999", "29999", "99998", "099999", "199999", "0999999", "3999999", "9999998", "999998",
            "1000000", "0000999", "000000", "0100000"]


def build_b(d):
    if d.chance(1, 4):
        start = d.choice(BOUNDARY)
    else:
        start = d.text("0123456789", 6, 7)
        if d.chance(1, 3):
            # near an expansion: d99..9x
            start = start[0] + "9" * (len(start) - 2) + start[-1]
    return {"start": start, "cli": d.chance(1, 12), "pins": [d.choice([None, None, "increments", "date"]) for _ in range(3)]}


def check_b(case):
    n, nt, bad, exc = follow(case["start"], 3, via_cli=case["cli"], pins=case.get("pins"))
    if bad:
        return viol(bad[0], {}, dict(bad[1], start=case["start"], cli=case["cli"]))
    if exc:
        return ok(classes=("start-at-documented-maximum-excluded",))
    return ok(nt=nt > 0, classes=("via-cli",) if case["cli"] else ())


def check_chain(case):
    n, nt, bad, exc = follow(case["start"], case["steps"])
    out = ok()
    if bad:
        out.more.append((bad[0], {"chain": True}, dict(bad[1], start=case["start"])))
    out.n, out.nt_n, out.nt = max(n, 1), nt, True
    out.classes = (("chain-steps", n),)
    return out


def chains(tier):
    starts = ["1", "9", "999", "0999", "1000", "1990", "09990", "19990", "29990", "99000", "0001", "00001", "000001", "1899",
              "398000", "0998000", "4999000", "8999", "97999", "0", "100", "0100", "5", "50", "500", "5000", "50000", "500000",
              "5000000", "1998", "21999", "88000"]
    steps = 4000
    if tier == "thorough":
        steps = 10000
        starts += [str(i * 4973 % 10 ** (3 + i % 4)).zfill(3 + i % 5) for i in range(1, 177)]
    return [{"start": s, "steps": steps} for s in starts]


# ------------------------------------------------------------------ D: other pattern shapes and flag sequences

import re as _re  # noqa: E402

# (pattern, start version template, regex extracting the BUILD text, flags that may be mixed in, zero-truncating rendering?)
SHAPES = [
    ("YYYY.BUILD[PYTAGNUM]", "2020.%src0", r"^2020\.(\d+)(?:(?:a|b|rc|post|dev)\d+)?$", [None, "tag_num", "tag_num", "pin_increments", "pin_date"], False),
    ("MAJOR.MINOR.BUILD[-TAG]", "1.2.%s-beta", r"^\d+\.\d+\.(\d+)(?:-\w+)?$", [None, "minor", "major", "pin_increments"], False),
    ("vYYYY0M.BUILD[-TAG[NUM]]", "v202006.%s-rc1", r"^v\d{6}\.(\d+)(?:-[a-z]+\d*)?$", [None, "tag_num", "pin_date"], False),
    ("YYYY.BLD", "2020.%s", r"^2020\.(\d+)$", [None, "pin_increments", "pin_date"], True),
    ("YYYY.BLD[PYTAGNUM]", "2020.%src0", r"^2020\.(\d+)(?:(?:a|b|rc|post|dev)\d+)?$", [None, "tag_num"], True),
    ("BUILD.INC0", "%s.0", r"^(\d+)\.\d+$", [None, "pin_increments", None], False),
]


def shape_domain(tier):
    starts = ["7", "9", "98", "099", "998", "0998", "1007", "1998", "01998", "9998", "09998", "89998", "4", "0004"]
    steps = 40 if tier == "quick" else 400
    out = []
    for si, shape in enumerate(SHAPES):
        for st in starts:
            if shape[4] and (st.startswith("0") and len(st) > 1):
                continue  # a zero-truncating part cannot hold a padded start
            for cli in (False, True):
                for mix in (0, 1):
                    out.append({"shape": si, "start": st, "steps": steps if not cli else min(steps, 60), "cli": cli, "mix": mix})
    return out


def check_shape(case):
    """chains under patterns where BUILD/BLD stands next to other parts, with --tag-num / --minor / --pin-* mixed in: the BUILD
    text of successive versions must keep growing (same step oracle; for the zero-truncating BLD the padding rule does not apply)"""
    pattern, tmpl, rx, flagset, truncating = SHAPES[case["shape"]]
    cur_v = tmpl % case["start"]
    cur = case["start"]
    n = nt = 0
    out = ok()
    for i in range(case["steps"]):
        flag = flagset[(i * (1 + case["mix"])) % len(flagset)] if case["mix"] or i % 3 == 0 else None
        kw = {"tag_num": flag == "tag_num", "minor": flag == "minor", "major": flag == "major",
              "pin_increments": flag == "pin_increments", "pin_date": flag == "pin_date"}
        if case["cli"]:
            args = ["test", cur_v, pattern] + ["--" + k.replace("_", "-") for k, v in kw.items() if v]
            if not kw["pin_date"]:
                args += ["--date", DATE.isoformat()]
            r = bv.run(args, today=DATE)
            if r.crashed and "max lexical version reached" in (r.exc or ""):
                break
            if r.exit != 0 or r.new_version is None:
                out.more.append(("bump-fails", {"shape": pattern}, {"args": args, "res": r.summary(300)}))
                break
            new_v = r.new_version
        else:
            bv_version.TODAY = DATE
            logging.disable(logging.CRITICAL)
            try:
                new_v = v2version.incr(cur_v, pattern, maybe_date=DATE, **kw)
            except OverflowError:
                break
            except Exception as ex:
                out.more.append(("bump-fails", {"shape": pattern}, {"old": cur_v, "flags": kw, "exc": repr(ex)}))
                break
            finally:
                logging.disable(logging.NOTSET)
            if new_v is None:
                out.more.append(("bump-fails", {"shape": pattern}, {"old": cur_v, "flags": kw, "exc": "incr returned None"}))
                break
        m = _re.match(rx, new_v)
        if not m:
            out.more.append(("not-a-number", {"shape": pattern}, {"old": cur_v, "new": new_v}))
            break
        new = m.group(1)
        n += 1
        if len(new) != len(cur) or flag:
            nt += 1
        bad = step_ok(cur, new, i == 0)
        if bad and truncating and bad[0] == "leading-zero-lost":
            bad = None  # BLD is documented as the zero-truncated form
        if bad:
            out.more.append((bad[0], {"shape": pattern}, dict(bad[1], old_version=cur_v, new_version=new_v, flag=flag, start=case["start"])))
            break
        cur, cur_v = new, new_v
    out.n, out.nt_n, out.nt = max(n, 1), nt, True
    out.classes = (("shape-steps", n),)
    return out


def selftest():
    for a, b in [("1001", "1002"), ("1999", "22000"), ("09999", "110000"), ("0999", "22000"), ("9", "1010"),
                 ("01500", "01501"), ("999", "22000"), ("00999", "22000")]:
        if bumpref.next_build(a) != b:
            raise HarnessError(f"lexid reference: next_build({a}) = {bumpref.next_build(a)}, expected {b}")


PARTS = [
    Part("A-all-starts", check=check_block, domain=blocks, exhaustive=lambda tier: True),
    Part("B-long-ids", check=check_b, strategy=lambda: dp.cases(build_b, size=24), n={"quick": 16000, "thorough": 400000}),
    fuzz.fuzz_part("B-coverage-guided", build_b, check_b, size=24, runs={"quick": 8000, "thorough": 160000}),
    Part("C-chains", check=check_chain, domain=chains, exhaustive=lambda tier: False),
    Part("D-other-patterns-and-flags", check=check_shape, domain=shape_domain, exhaustive=lambda tier: False),
]

MANIFEST = {
    "text": "Exhaustive over all 111,110 starting ids of 1..5 digits (both tiers), generated 6..7 digit ids, and chains of up to 10,000 successive bumps; every "
            "step is checked numerically, lexically and for width.",
    "note": "All-nines ids (the documented maximum) are excluded and counted. Ids longer than 7 digits are not explored.",
    "technique": "exhaustive enumeration + property-based testing (Hypothesis); invariant over bump chains and reference model; plus coverage-guided fuzzing (atheris/libFuzzer) of the same byte decoder and oracle",
}
