"""C19 - `init` always produces a configuration that bumpver itself can use."""
import os
import shutil
import tempfile
import datetime as dt
import itertools

from harness.core import Part, ok, viol
from harness import dp, bv, projgen

ID = "C19"
LEVEL = "exploration"
CONFIGS = ["setup.cfg", "pyproject.toml", "bumpver.toml", ".bumpver.toml", "pycalver.toml"]
PLAIN = ["README.md", "README.rst", "setup.py"]
STATES = ["absent", "empty", "unrelated", "section"]
RULE = ("A (exhaustive, both tiers): every layout of the eight recognised project files: the five config-capable files "
        "(setup.cfg, pyproject.toml, bumpver.toml, .bumpver.toml, pycalver.toml) each absent / empty / with unrelated content / "
        "with an existing bumpver section (its own distinct current_version), the three plain files (README.md, README.rst, "
        "setup.py) present or not: 4^5 x 2^3 = 8192 layouts. B (Hypothesis): layouts whose 'unrelated content' is generated "
        "(INI / TOML with other sections, CRLF, missing final newline, comments, unicode). Oracle: no section anywhere => `init "
        "--dry` (on the same tree, first) changes nothing; `init` exits 0 and changes exactly one file whose new content has "
        "the old content as a prefix; `show` exits 0 and reports <this year>.1001-alpha; a second `init` exits != 0 and "
        "changes nothing. Some file has a section => `init` refuses (exit != 0) and changes nothing, and `show` reports the "
        "version of a file that holds a section. Non-trivial: at least two recognised files are present.")
ASSUME = ["'this year' is the UTC year sampled before or after the call (either accepted)",
          "which of several files with a section wins is not asserted"]

SECTION = {
    "setup.cfg": '[bumpver]\ncurrent_version = "%s"\nversion_pattern = "MAJOR.MINOR.PATCH"\n\n[bumpver:file_patterns]\nsetup.cfg =\n    current_version = "{version}"\n',
    "pyproject.toml": '[tool.bumpver]\ncurrent_version = "%s"\nversion_pattern = "MAJOR.MINOR.PATCH"\n\n[tool.bumpver.file_patterns]\n"pyproject.toml" = [\'current_version = "{version}"\']\n',
    "bumpver.toml": '[bumpver]\ncurrent_version = "%s"\nversion_pattern = "MAJOR.MINOR.PATCH"\n\n[bumpver.file_patterns]\n"bumpver.toml" = [\'current_version = "{version}"\']\n',
    ".bumpver.toml": '[bumpver]\ncurrent_version = "%s"\nversion_pattern = "MAJOR.MINOR.PATCH"\n\n[bumpver.file_patterns]\n".bumpver.toml" = [\'current_version = "{version}"\']\n',
    "pycalver.toml": '[pycalver]\ncurrent_version = "%s"\nversion_pattern = "MAJOR.MINOR.PATCH"\n\n[pycalver.file_patterns]\n"pycalver.toml" = [\'current_version = "{version}"\']\n',
}
UNRELATED = {
    "setup.cfg": "[metadata]\nname = demo\nversion = attr: demo.__version__\n\n[options]\npackages = find:\n",
    "pyproject.toml": '[build-system]\nrequires = ["setuptools>=61"]\nbuild-backend = "setuptools.build_meta"\n\n[tool.black]\nline-length = 100\n',
    "bumpver.toml": "[other]\nx = 1\n",
    ".bumpver.toml": "# nothing here yet\n",
    "pycalver.toml": "[something]\nelse = true\n",
}
VERSIONS = {"setup.cfg": "1.0.1", "pyproject.toml": "2.0.2", "bumpver.toml": "3.0.3", ".bumpver.toml": "4.0.4", "pycalver.toml": "5.0.5"}
PLAIN_CONTENT = {"README.md": "# demo\n", "README.rst": "demo\n====\n", "setup.py": "from setuptools import setup\nsetup()\n"}


def layouts(tier):
    out = []
    for states in itertools.product(STATES, repeat=len(CONFIGS)):
        for plain in itertools.product([False, True], repeat=len(PLAIN)):
            out.append({"configs": dict(zip(CONFIGS, states)), "plain": dict(zip(PLAIN, plain)), "unrelated": None})
    return out


def run_layout(case):
    tmp = tempfile.mkdtemp(prefix="c19_")
    try:
        sections = []
        present = 0
        for name, st in case["configs"].items():
            if st == "absent":
                continue
            present += 1
            if st == "empty":
                body = ""
            elif st == "unrelated":
                body = (case["unrelated"] or {}).get(name) or UNRELATED[name]
            else:
                body = SECTION[name] % VERSIONS[name]
                if name in (case.get("big_preamble") or []):
                    # a long file: the bumpver section comes after more than 4 KiB of other content (init appends)
                    body = UNRELATED[name] + "".join("# line %04d of a long preamble ............................\n" % i for i in range(120)) + "\n" + body
                if name == "setup.cfg" and case.get("legacy_cfg_section"):
                    body = body.replace("[bumpver]", "[pycalver]").replace("[bumpver:file_patterns]", "[pycalver:file_patterns]")
                sections.append(name)
            projgen.write_file(tmp, name, body)
        for name, on in case["plain"].items():
            if on:
                present += 1
                projgen.write_file(tmp, name, PLAIN_CONTENT[name])
        nt = present >= 2
        sig = {"has_section": bool(sections)}
        y0 = dt.datetime.now(dt.timezone.utc).year
        s0 = projgen.snapshot(tmp)
        r_dry = bv.run(["init", "--dry"], cwd=tmp)
        s1 = projgen.snapshot(tmp)
        detail = {"layout": case, "dry": r_dry.summary(300)}
        if s1 != s0:
            return viol("init-dry-wrote-files", sig, dict(detail, changed=projgen.diff_snap(s0, s1)), nt=nt)
        r = bv.run(["init"], cwd=tmp)
        s2 = projgen.snapshot(tmp)
        detail["init"] = r.summary(400)
        if sections:
            if r.exit == 0 or s2 != s1:
                return viol("init-does-not-refuse-existing-configuration", sig, dict(detail, changed=projgen.diff_snap(s1, s2)), nt=nt)
            r_show = bv.run(["show", "--no-fetch"], cwd=tmp)
            cur = r_show.field("Current Version", "out")
            detail["show"] = r_show.summary(300)
            if r_show.exit != 0 or cur not in [VERSIONS[n] for n in sections]:
                return viol("show-prefers-file-without-section", dict(sig, winner=cur), detail, nt=nt)
            return ok(nt=nt, classes=("refused-existing",))
        if r.crashed:
            return viol("init-crashes", dict(sig, exc=(r.exc or "")[:40]), detail, nt=nt)
        if r.exit != 0:
            return viol("init-fails-without-existing-configuration", sig, detail, nt=nt)
        changed = projgen.diff_snap(s1, s2)
        if len(changed) != 1:
            return viol("init-changed-other-than-one-file", sig, dict(detail, changed=changed), nt=nt)
        target = changed[0]
        if not s2[target].startswith(s1.get(target, b"")):
            return viol("init-did-not-keep-prior-content-as-prefix", dict(sig, target=target), dict(detail, target=target), nt=nt)
        r_show = bv.run(["show", "--no-fetch"], cwd=tmp)
        y1 = dt.datetime.now(dt.timezone.utc).year
        cur = r_show.field("Current Version", "out")
        detail["show"] = r_show.summary(400)
        detail["target"] = target
        if r_show.exit != 0 or cur not in ("%d.1001-alpha" % y0, "%d.1001-alpha" % y1):
            return viol("show-cannot-use-initialised-configuration", dict(sig, target=target, state=case["configs"].get(target, "absent")), detail, nt=nt)
        r2 = bv.run(["init"], cwd=tmp)
        s3 = projgen.snapshot(tmp)
        if r2.exit == 0 or s3 != s2:
            return viol("second-init-does-not-refuse", dict(sig, target=target), dict(detail, second=r2.summary(300)), nt=nt)
        return ok(nt=nt, classes=("initialised:" + target,))
    finally:
        shutil.rmtree(tmp, ignore_errors=True)


# ------------------------------------------------------------------ B: generated unrelated content

INI_SECTIONS = ["metadata", "options", "tool:pytest", "flake8", "mypy", "bdist_wheel", "options.extras_require", "x y", "isort",
                "bumpversion", "bumpversion:file:setup.py"]  # (another tool's sections that begin like ours)
KEYS = ["name", "version", "packages", "universal", "max-line-length", "addopts", "current", "pattern", "commit", "tag", "description",
        "current_version"]
VALS = ["demo", "1.2.3", "find:", "true", "100", "--cov", "attr: demo.__version__", "ünï", "a = b", "x ; y", "# not a comment?", '"quoted"', ""]


def gen_ini(d):
    lines = []
    if d.chance(1, 4):
        lines.append("# comment " + d.choice(VALS))
    used = set()
    for _ in range(d.int(1, 4)):
        sec = d.choice(INI_SECTIONS)
        if sec in used:
            continue
        used.add(sec)
        lines.append("[%s]" % sec)
        keys = set()
        for _ in range(d.int(0, 4)):
            k = d.choice(KEYS)
            if k in keys:
                continue
            keys.add(k)
            v = d.choice(VALS)
            if d.chance(1, 5):
                v = v + "\n    continued line"
            lines.append("%s %s %s" % (k, d.choice(["=", ":"]), v))
        if d.bool():
            lines.append("")
    return lines


def gen_toml(d, pyproject):
    lines = []
    if d.chance(1, 4):
        lines.append("# comment " + d.choice(["x", "ünï", "[bumpver-like]"]))
    tables = ["build-system", "tool.black", "tool.isort", "project", "tool.pytest.ini_options", "other", "tool.poetry.dependencies",
              "tool.bumpversion", "bumpversion"]
    used = set()
    for _ in range(d.int(1, 4)):
        t = d.choice(tables)
        if t in used:
            continue
        used.add(t)
        lines.append("[%s]" % t)
        keys = set()
        for _ in range(d.int(0, 4)):
            k = d.choice(KEYS)
            if k in keys:
                continue
            keys.add(k)
            lines.append("%s = %s" % (k, d.choice(['"demo"', "100", "true", '["a", "b"]', '"ünï"', "'lit # x'", "1.5", '"""multi\nline"""'])))
        if d.bool():
            lines.append("")
    return lines


def build(d):
    configs = {}
    unrelated = {}
    for name in CONFIGS:
        st = d.choice(["absent", "absent", "unrelated", "unrelated", "empty", "section"]) if d.chance(9, 10) else "section"
        configs[name] = st
        if st == "unrelated":
            lines = gen_ini(d) if name.endswith(".cfg") else gen_toml(d, name == "pyproject.toml")
            sep = d.choice(["\n", "\n", "\r\n"])
            body = sep.join(lines)
            if d.chance(2, 3):
                body += sep
            if d.chance(1, 10):
                body = "﻿" + body if False else body
            unrelated[name] = body
    # sections are rarer in this part: it is mostly about appending to unrelated content
    if d.chance(3, 4):
        for name in CONFIGS:
            if configs[name] == "section":
                configs[name] = "absent"
    return {"configs": configs, "plain": {n: d.bool() for n in PLAIN}, "unrelated": unrelated, "legacy_cfg_section": d.bool(),
            "big_preamble": [n for n in CONFIGS if configs[n] == "section" and d.bool()]}


PARTS = [
    Part("A-all-layouts", check=run_layout, domain=layouts, exhaustive=lambda tier: True),
    Part("B-generated-unrelated-content", check=run_layout, strategy=lambda: dp.cases(build, size=160), n={"quick": 2000, "thorough": 40000}),
]

MANIFEST = {
    "text": "Exhaustive over all 8192 layouts of the recognised project files (both tiers) plus generated unrelated INI/TOML "
            "content; `init --dry`, `init`, `show` and a second `init` are run in each and judged by what changed on disk and "
            "what `show` reads back.",
    "note": "Usability is judged by `show` reading the initial version back from the same file (as the property states); the "
            "UTC year is sampled around the call.",
    "technique": "exhaustive enumeration of a finite layout space + property-based testing (Hypothesis); round-trip (init -> show) oracle",
}
