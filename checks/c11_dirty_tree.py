"""C11 - uncommitted changes are never swept into the bump commit."""
import os
import shutil
import tempfile

from harness.core import Part, ok, viol, discard, HarnessError
from harness import dp, bv, projgen, gitbox

ID = "C11"
LEVEL = "exploration"
STATUSES = ["clean", "modified-unstaged", "modified-staged", "modified-both", "added", "deleted-unstaged", "deleted-staged", "renamed", "untracked",
            "typechange-unstaged", "typechange-staged"]
RULE = ("Real git repositories. A (enumerated, both tiers): every status git can report for a file (clean, modified-unstaged, "
        "modified-staged, modified-both, added, deleted-unstaged, deleted-staged, renamed, renamed-then-edited, untracked, type change (file replaced by a symbolic link) unstaged / staged) x {pattern file (named plainly, as ./path or through a glob), "
        "unrelated file} x --allow-dirty on/off x file in the top directory or a sub-directory x with/without a (no-op) pre-commit hook plus every status x pattern/unrelated x --allow-dirty for four file names that git prints quoted (blank, blank in the directory, non-ASCII with core.quotePath on and off, double quote + backslash; 200 cases). B (Hypothesis): "
        "1..4 files (pattern files and unrelated files, sub-directories) with independent statuses, --allow-dirty on/off. "
        "The status text is whatever the real `git status --porcelain` prints. Oracle: expected abort iff (some file has a "
        "tracked change and not --allow-dirty) or (some pattern file has any uncommitted change, untracked included). Abort "
        "=> exit != 0, working-tree bytes, index (`git ls-files -s`, `git diff --cached`) and HEAD unchanged, no tag. "
        "Proceed => exit 0, exactly one new commit, and for every pattern file `git show HEAD:f` equals `git show HEAD~1:f` "
        "with only the version re-filled. Non-trivial: some file is not clean.")
ASSUME = ["file names: plain ASCII, with a blank, non-ASCII, with a double quote and a backslash (git prints the last three "
          "quoted in porcelain output); names with line breaks or ' -> ' inside are not generated",
          "changes of unrelated files that the user had already staged may be part of the commit (--allow-dirty); unstaged and "
          "untracked ones must stay uncommitted (bumpver stages configured files only)"]

OLD, NEW = "1.2.3", "1.2.4"


def content(version, marker="line"):
    return "first %s\nversion = %s\nlast %s\n" % (marker, version, marker)


def apply_status(repo, path, status, is_pattern):
    """bring `path` (already committed with clean content, except for added/untracked) into the given status"""
    full = os.path.join(repo, path)
    if status == "clean":
        return
    if status in ("added", "untracked"):
        projgen.write_file(repo, path, content(OLD) if is_pattern else "new file\n")
        if status == "added":
            gitbox.git(repo, "add", "--", path)
        return
    if status == "modified-unstaged":
        projgen.write_file(repo, path, content(OLD, "EDITED") if is_pattern else "edited\n")
    elif status == "modified-staged":
        projgen.write_file(repo, path, content(OLD, "EDITED") if is_pattern else "edited\n")
        gitbox.git(repo, "add", "--", path)
    elif status == "modified-both":
        projgen.write_file(repo, path, content(OLD, "STAGED") if is_pattern else "staged\n")
        gitbox.git(repo, "add", "--", path)
        projgen.write_file(repo, path, content(OLD, "UNSTAGED") if is_pattern else "unstaged\n")
    elif status == "deleted-unstaged":
        os.unlink(full)
    elif status == "deleted-staged":
        gitbox.git(repo, "rm", "-q", "--", path)
    elif status == "renamed":
        gitbox.git(repo, "mv", "--", path, path + ".moved")
    elif status.startswith("typechange"):
        # the regular file becomes a symbolic link (to a file with the same content): porcelain prints " T path" / "T  path"
        target = path + ".target"
        projgen.write_file(repo, target, content(OLD) if is_pattern else "unrelated\n")
        os.unlink(full)
        os.symlink(os.path.basename(target), full)
        if status == "typechange-staged":
            gitbox.git(repo, "add", "--", path)
    elif status == "renamed-modified":
        # renamed in the index, then edited in the working tree: porcelain prints "RM old -> new"
        new = os.path.join(os.path.dirname(path), "renamed_" + os.path.basename(path))
        gitbox.git(repo, "mv", "--", path, new)
        projgen.write_file(repo, new, content(OLD, "EDITED") if is_pattern else "edited after rename\n")


def run_case(files, allow_dirty, pre_hook=False, quotepath=False):
    """files: [{"path", "pattern": bool, "status"}]; pre_hook: a no-op pre-commit hook is configured;
    quotepath: git's default core.quotePath=true (non-ASCII bytes are printed as octal escapes)"""
    tmp = tempfile.mkdtemp(prefix="c11_")
    try:
        pattern_files = [f["path"] for f in files if f["pattern"]]
        keys = []
        for f in files:
            if f["pattern"] and f.get("key", f["path"]) not in keys:
                keys.append(f.get("key", f["path"]))
        spec = {"current_version": OLD, "version_pattern": "MAJOR.MINOR.PATCH", "options": {"commit": True, "tag": True, "push": False},
                "files": [[k, ["version = {version}"]] for k in keys]}
        if pre_hook:
            projgen.write_file(tmp, "hooks/pre.sh", "#!/bin/sh\nexit 0\n")
            os.chmod(os.path.join(tmp, "hooks/pre.sh"), 0o755)
            spec["options"]["pre_commit_hook"] = "hooks/pre.sh"
        projgen.write_file(tmp, "bumpver.toml", projgen.toml_config(spec))
        projgen.write_file(tmp, "keep.txt", "keep\n")
        for f in files:
            if f["status"] not in ("added", "untracked"):
                projgen.write_file(tmp, f["path"], content(OLD) if f["pattern"] else "unrelated\n")
        gitbox.init(tmp)
        if quotepath:
            gitbox.git(tmp, "config", "--unset", "core.quotepath")
        for f in files:
            apply_status(tmp, f["path"], f["status"], f["pattern"])
        porcelain = gitbox.git(tmp, "status", "--porcelain")
        head0 = gitbox.head(tmp)
        index0 = gitbox.git(tmp, "ls-files", "-s") + gitbox.git(tmp, "diff", "--cached", "--name-status")
        tree0 = projgen.snapshot(tmp)
        args = ["update", "--no-fetch", "--patch"] + (["--allow-dirty"] if allow_dirty else [])
        r = bv.run(args, cwd=tmp, env=gitbox.env(tmp))
        head1 = gitbox.head(tmp)
        index1 = gitbox.git(tmp, "ls-files", "-s") + gitbox.git(tmp, "diff", "--cached", "--name-status")
        tree1 = projgen.snapshot(tmp)
        tags = gitbox.tags(tmp)
        tracked_change = any(f["status"] not in ("clean", "untracked") for f in files)
        pattern_dirty = any(f["pattern"] and f["status"] != "clean" for f in files)
        expect_abort = (tracked_change and not allow_dirty) or pattern_dirty
        sig = {"allow_dirty": allow_dirty, "statuses": sorted({("pattern:" if f["pattern"] else "other:") + f["status"] for f in files if f["status"] != "clean"})}
        detail = {"files": files, "args": args, "porcelain": porcelain, "exit": r.exit, "exc": r.exc, "stderr": r.err[-700:],
                  "expected": "abort" if expect_abort else "proceed"}
        if expect_abort:
            if r.exit == 0 or head1 != head0 or tags:
                swept = ""
                if head1 != head0:
                    swept = gitbox.git(tmp, "show", "--stat", "--format=%s", "HEAD")
                which = next((("pattern-file-" if f["pattern"] else "unrelated-file-") + f["status"] for f in files if f["status"] != "clean"), "?")
                return viol("update-proceeds-with-uncommitted-changes:" + which, dict(sig, which=which), dict(detail, commit=swept, tags=tags))
            if tree1 != tree0 or index1 != index0:
                return viol("aborted-update-changed-tree-or-index", sig, dict(detail, changed=projgen.diff_snap(tree0, tree1)))
            return ok(nt=True, classes=("abort",))
        if r.exit != 0:
            which = next((("pattern-file-" if f["pattern"] else "unrelated-file-") + f["status"] for f in files if f["status"] != "clean"), "all-clean")
            return viol("update-blocked-although-allowed:" + which, dict(sig, which=which), detail)
        n_new = int(gitbox.git(tmp, "rev-list", "--count", head0 + "..HEAD").strip())
        if n_new != 1:
            return viol("not-exactly-one-new-commit", sig, dict(detail, new_commits=n_new))
        if tags != [NEW]:
            return viol("tag-missing-or-wrong", sig, dict(detail, tags=tags))
        for p in pattern_files:
            before = gitbox.git(tmp, "show", "HEAD~1:" + p)
            after = gitbox.git(tmp, "show", "HEAD:" + p)
            if after != before.replace("version = " + OLD, "version = " + NEW) or after == before:
                return viol("bump-commit-contains-other-edits-of-pattern-file", sig, dict(detail, path=p, committed=after, previous=before))
        # changes the user had not staged (unrelated files: unstaged edits, unstaged deletions, untracked files) must
        # still be uncommitted: bumpver stages the configured files only
        committed = {x for x in gitbox.git(tmp, "show", "--name-only", "--format=", "-z", "HEAD").split("\0") if x}
        for f in files:
            if not f["pattern"] and f["status"] in ("modified-unstaged", "deleted-unstaged", "untracked", "typechange-unstaged") and f["path"] in committed:
                return viol("unstaged-change-of-unrelated-file-swept-into-bump-commit", dict(sig, which=f["status"]), dict(detail, committed=sorted(committed)))
        nt = any(f["status"] != "clean" for f in files)
        return ok(nt=nt, classes=("proceed",))
    finally:
        shutil.rmtree(tmp, ignore_errors=True)


def matrix(tier):
    out = []
    for status in STATUSES + ["renamed-modified"]:
        for is_pattern in (True, False):
            for allow in (False, True):
                for sub in (False, True):
                    # how the pattern file is named in the config: plainly, as ./path, or through a glob of its directory
                    for style in (("plain", "dot-slash", "glob") if is_pattern else ("plain",)):
                        path = ("src/pkg/" if sub else "") + ("a.txt" if is_pattern else "other.txt")
                        f = {"path": path, "pattern": is_pattern, "status": status}
                        if style == "dot-slash":
                            f["key"] = "./" + path
                        elif style == "glob":
                            f["key"] = ("src/pkg/" if sub else "") + "*a.txt"  # a.txt and renamed_a.txt, nothing else
                        for hook in (False, True):
                            out.append({"files": [dict(f)] + ([] if is_pattern else [{"path": "a.txt", "pattern": True, "status": "clean"}]),
                                        "allow_dirty": allow, "pre_hook": hook})
    # the same statuses for file names that git prints quoted in its porcelain output
    for status in STATUSES + ["renamed-modified"]:
        for is_pattern in (True, False):
            for allow in (False, True):
                for nm in ODD_NAMES:
                    f = {"path": nm, "pattern": is_pattern, "status": status}
                    for qp in ((False, True) if any(ord(c) > 126 for c in nm) else (False,)):
                        out.append({"files": [f] + ([] if is_pattern else [{"path": "a.txt", "pattern": True, "status": "clean"}]),
                                    "allow_dirty": allow, "pre_hook": False, "quotepath": qp})
    # many dirty files: the pattern file is the last of more than ten entries of the status listing
    for status in ("modified-unstaged", "modified-staged", "untracked"):
        for allow in (False, True):
            many = [{"path": "aa%02d.txt" % i, "pattern": False, "status": "modified-unstaged"} for i in range(12)]
            out.append({"files": many + [{"path": "zz.txt", "pattern": True, "status": status}], "allow_dirty": allow, "pre_hook": False})
    return out


ODD_NAMES = ["a b.txt", "src dir/a.txt", "caf\u00e9.txt", "q\"uo\\te.txt"]


def check_matrix(case):
    return run_case(case["files"], case["allow_dirty"], case.get("pre_hook", False), case.get("quotepath", False))


NAMES = ["a.txt", "b.cfg", "src/c.py", "src/deep/d.txt", "docs/e.md", "f", "g h.txt", "docs/\u00fc.md"]


def build(d):
    n = d.int(1, 4)
    names = d.shuffle(NAMES)[:n]
    files = []
    for i, nm in enumerate(names):
        f = {"path": nm, "pattern": d.bool() if i else True, "status": d.choice(STATUSES + ["renamed-modified", "clean", "clean"])}
        if f["pattern"] and d.chance(1, 3):
            f["key"] = os.path.join(os.path.dirname(nm), "*" + os.path.basename(nm)) if d.bool() else "./" + nm
        files.append(f)
    return {"files": files, "allow_dirty": d.bool(), "pre_hook": d.chance(1, 3), "quotepath": d.bool()}


def check_b(case):
    return run_case(case["files"], case["allow_dirty"], case.get("pre_hook", False), case.get("quotepath", False))


def selftest():
    if not os.path.exists(gitbox.GIT):
        raise HarnessError("real git not found")


PARTS = [
    Part("A-status-matrix", check=check_matrix, domain=matrix, exhaustive=lambda tier: True),
    Part("B-compositions", check=check_b, strategy=lambda: dp.cases(build, size=32), n={"quick": 1200, "thorough": 16000}),
]

MANIFEST = {
    "text": ("Real git: the complete matrix of file statuses (incl. renamed-then-edited and type changes) x {pattern file, "
            "unrelated file} x --allow-dirty x directory depth x how the file is named in the config x pre-commit hook, and the same "
            "statuses for file names that git prints quoted (blanks, quotes, backslash, non-ASCII with core.quotePath on/off) - "
            "%d cases, both tiers - plus generated compositions of up to four files; abort/proceed is predicted from the "
             "property's rule, and tree, index, HEAD, tags and the committed content of pattern files are inspected with git.") % len(matrix("quick")),
    "note": "Real git 2.39 produces the status text. File names with line breaks or ' -> ' inside are not generated. One bump scenario.",
    "technique": "exhaustive enumeration of the status matrix + property-based testing (Hypothesis) on real git repositories; rule-derived oracle",
}
