"""C04 - rewriting touches nothing but the matched spans."""
import os
import re
import shutil
import tempfile
import datetime as dt

from harness.core import Part, ok, viol, discard
from harness import dp, bv, grammar, projgen
from harness.refmodel import pattern_str

ID = "C04"
LEVEL = "exploration"
RULE = ("Projects as in C03 but file content is arbitrary Unicode (all planes except surrogates: BOM, C0/C1 controls, the "
        "str.splitlines separators \\x0b \\x0c \\x1c-\\x1e \\x85 \\u2028 \\u2029, regex metacharacters, combining marks) with "
        "planted occurrences; per-line separators LF / CRLF / CR in pure or mixed regimes, with or without a final "
        "separator, optional BOM; a non-ASCII commit message in the config; bystander files not named in the config (some "
        "contain matching text). Bulk in-process (UTF-8); a sample runs `python -m bumpver` in a subprocess under LC_ALL=C, "
        "PYTHONUTF8=0, PYTHONCOERCECLOCALE=0. Oracle when exit 0: each file's new text must consist of exactly the old "
        "text segments and separators, verbatim and in order, with something (no line separator) in place of each planted "
        "span; bystanders keep bytes, inode and mtime; no new file appears. Non-trivial: non-ASCII content, or a non-LF / "
        "mixed regime, or no final newline.")
ASSUME = ["search patterns are delimited by unique ASCII literals, so matches occur only where planted (self-checked with the "
          "reference matcher; failures are discards)", "what is written INTO a span is C03's subject, not checked here"]

ASCII_ENV = {"LC_ALL": "C", "LANG": "C", "PYTHONUTF8": "0", "PYTHONCOERCECLOCALE": "0", "PYTHONIOENCODING": ""}


def build(d):
    pep = d.chance(1, 3)
    nodes, state, text = (grammar.gen_pep440_pattern_and_state(d) if pep else grammar.gen_pattern_and_state(d, safe_seps=True))
    if nodes is None:
        return {"discard": state}
    spec = projgen.gen_project(d, nodes, state, pep_shaped=pep, max_files=3, max_patterns=3, unicode_text=True,
                               regimes=["lf", "crlf", "cr", "mixed"], allow_partial=True, nested=True)
    flags, date = projgen.gen_bump(d, nodes, state)
    return {"spec": spec, "flags": flags, "date": date, "ascii_locale": d.chance(1, 48), "msg": d.choice(["bump", "bump ✓ → {new_version}", "Ünïcode"])}


def template_regex(fspec):
    parts = [re.escape("﻿")] if fspec.get("bom") else []
    for segs, sep in zip(fspec["lines"], fspec["seps"]):
        for k, v in segs:
            parts.append(re.escape(v) if k == "t" else "[^\r\n]*?")
        parts.append(re.escape(sep))
    return re.compile("".join(parts), re.DOTALL)


def check(case):
    if "discard" in case:
        return discard(case["discard"])
    spec, flags = case["spec"], dict(case["flags"])
    ast, state = spec["ast"], spec["state"]
    if projgen.construction_ok(spec, state):
        return discard("construction-self-check")
    date = dt.date.fromisoformat(case["date"])
    if flags.get("pin_date"):
        flags["pin_date"] = False  # the subprocess cannot pin TODAY; always pass an explicit date
    flags["date"] = case["date"]
    texts = ["".join(v for segs in f["lines"] for k, v in segs if k == "t") for f in spec["files"]]
    nonascii = any(ord(c) > 127 for t in texts for c in t)
    regimes = {f["regime"] for f in spec["files"]}
    no_final = any(f["seps"][-1] == "" for f in spec["files"])
    nt = nonascii or bool(regimes - {"lf"}) or no_final
    classes = ["regime:" + r for r in sorted(regimes)]
    if any(p.get("nested") for p in spec["patterns"]):
        classes.append("pattern-nested-in-another-patterns-occurrence")
    if nonascii:
        classes.append("non-ascii")
    if no_final:
        classes.append("no-final-newline")
    if any(f.get("bom") for f in spec["files"]):
        classes.append("bom")
    tmp = tempfile.mkdtemp(prefix="c04_")
    try:
        old = projgen.materialize(spec, tmp, state, options={"commit_message": case["msg"]})
        before = projgen.snapshot(tmp, with_meta=True)
        args = ["update", "--no-fetch"] + bv.flag_args(flags)
        if case["ascii_locale"]:
            classes.append("ascii-locale-subprocess")
            r = bv.run_sub(args, cwd=tmp, env=ASCII_ENV)
        else:
            r = bv.run(args, cwd=tmp, today=date)
        after = projgen.snapshot(tmp, with_meta=True)
        detail = {"args": args, "pattern": pattern_str(ast), "old": old, "ascii_locale": case["ascii_locale"], "res": r.summary(400)}
        sig = {"ascii_locale": case["ascii_locale"]}
        configured = {f["path"] for f in spec["files"]} | {"bumpver.toml"}
        new_files = sorted(set(after) - set(before))
        if new_files:
            return viol("new-file-appeared", sig, dict(detail, files=new_files), nt=nt, classes=tuple(classes))
        for path in before:
            if path not in configured and before[path] != after.get(path):
                return viol("unconfigured-file-touched", sig, dict(detail, file=path), nt=nt, classes=tuple(classes))
        if r.exit != 0:
            classes.append("update-declined")
            # whatever happened, configured files must be unchanged or changed inside the planted spans only
            for f in spec["files"]:
                if after[f["path"]][0] != before[f["path"]][0]:
                    try:
                        okay = template_regex(f).fullmatch(after[f["path"]][0].decode("utf-8")) is not None
                    except UnicodeDecodeError:
                        okay = False
                    if not okay:
                        return viol("failed-update-damaged-file", sig, dict(detail, file=f["path"]), nt=nt, classes=tuple(classes))
            if case["ascii_locale"]:
                # differential: the same project under UTF-8 (fresh copy, in-process)
                tmp2 = tempfile.mkdtemp(prefix="c04b_")
                try:
                    projgen.materialize(spec, tmp2, state, options={"commit_message": case["msg"]})
                    r2 = bv.run(args, cwd=tmp2, today=date)
                finally:
                    shutil.rmtree(tmp2, ignore_errors=True)
                if r2.exit == 0:
                    return viol("outcome-depends-on-process-locale", sig, dict(detail, utf8_run=r2.summary(300)), nt=nt, classes=tuple(classes))
            return ok(nt=False, classes=tuple(classes))
        classes.append("updated")
        for f in spec["files"]:
            have = after[f["path"]][0]
            try:
                text = have.decode("utf-8")
            except UnicodeDecodeError as ex:
                return viol("file-no-longer-utf8", dict(sig, regime=f["regime"]), dict(detail, file=f["path"], exc=repr(ex)), nt=nt, classes=tuple(classes))
            if not template_regex(f).fullmatch(text):
                was = before[f["path"]][0].decode("utf-8")
                # first position where old and new differ, for the report
                i = next((k for k in range(min(len(was), len(text))) if was[k] != text[k]), min(len(was), len(text)))
                why = "bytes-outside-matched-spans-changed"
                if was.replace("\r\n", "\n").replace("\r", "\n") .count("\n") != text.replace("\r\n", "\n").replace("\r", "\n").count("\n") or \
                        [c for c in was if c in "\r\n"] != [c for c in text if c in "\r\n"]:
                    why = "line-separators-changed"
                return viol(why, dict(sig, regime=f["regime"], final_newline=f["seps"][-1] != ""),
                            dict(detail, file=f["path"], regime=f["regime"], old_around=was[max(0, i - 30):i + 30], new_around=text[max(0, i - 30):i + 30]),
                            nt=nt, classes=tuple(classes))
        return ok(nt=nt, classes=tuple(classes))
    finally:
        shutil.rmtree(tmp, ignore_errors=True)


PARTS = [
    Part("unicode-projects", check=check, strategy=lambda: dp.cases(build, size=900), n={"quick": 12000, "thorough": 300000}, max_discard=0.1),
]

MANIFEST = {
    "text": "Generated-input search over arbitrary-Unicode file contents, all four line-ending regimes, BOM, missing final "
            "newline and bystander files, in-process and (sampled) in an ASCII-locale subprocess (differential against a UTF-8 run when it fails); the new text must be the "
            "old text with only the planted spans replaced (template regex), bystanders byte/inode/mtime identical.",
    "note": "The ASCII-locale dimension is sampled (1/48 of the cases, subprocess); the rest runs in-process under UTF-8. "
            "Matches are confined to planted spans by unique delimiters.",
    "technique": "property-based testing (Hypothesis, grammar-decoded Unicode projects) with a construction oracle; locale fault dimension via subprocess",
}
