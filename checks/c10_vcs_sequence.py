"""C10 - VCS steps run only as configured, in order, and stop at the first failure (fault enumeration)."""
import os
import shutil
import tempfile
import itertools

from harness.core import Part, ok, viol, HarnessError
from harness import bv, projgen, fakevcs

ID = "C10"
LEVEL = "fault_enumeration"
DIMS = [
    ("cfg_commit", [False, True]), ("cfg_tag", [False, True]), ("cfg_push", [False, True]),
    ("cli_commit", [None, True, False]), ("cli_tag", [None, True, False]), ("cli_push", [None, True, False]),
    ("pre", ["absent", "ok", "fails"]), ("post", ["absent", "ok", "fails"]),
    ("tree", ["clean", "unrelated-dirty", "pattern-file-dirty"]), ("allow_dirty", [False, True]),
    ("tag_message", ["", "release {new_version}"]), ("remote", [True, False]), ("dry", [False, True]),
    ("fetch", [True, False]), ("vcs", ["git", "hg"]),
]
TOTAL = 1
for _n, _v in DIMS:
    TOTAL *= len(_v)
FAULT_KINDS = ["fetch", "tags_all", "status", "add", "commit", "tag", "push"]
RULE = (f"Enumerated product of config commit/tag/push x tri-state --commit/--tag-commit/--push x pre/post hook {{absent, "
        f"succeeds, fails}} x tree {{clean, unrelated file dirty, pattern file dirty}} x --allow-dirty x tag message {{empty, "
        f"set}} x remote {{present, absent}} x --dry x --fetch/--no-fetch x {{git, hg}} = {TOTAL} configurations (thorough: all; "
        "quick: a stride-47 sample of everything - 47 is coprime to every dimension size - plus a stride-17 sample of the configurations that can reach the commit step, seed-dependent offsets), each run as a real `update --patch` against fake "
        "git/hg executables that log argv; plus a fault layer: for a sample of configurations that reach the commit step, "
        "each VCS sub-command kind (fetch, tag listing, status, add, commit, tag, push) is made to fail in turn; plus all 192 "
        "combinations of tag scope x --ignore-vcs-tag x --set-version x fetch x remote x vcs x --dry (which decide whether a second, "
        "never-fetching tag listing happens). Oracle: a "
        "reference sequencer predicts the event list (fetch, tag listing, status, pre-hook, add{paths}, commit, post-hook, "
        "tag, push), truncated at the first failing step; the observed log projected onto these kinds must equal it (adds "
        "as a set), exit != 0 iff a step failed / a rule aborted / the flags contradict; tag annotated iff a message is set; "
        "push carries the tag iff tagged; hooks see BUMPVER_OLD/NEW_VERSION; files are rewritten iff the rewrite step is "
        "reached. Non-trivial: reaches at least the commit step, or is a contradiction, or has an injected fault.")
ASSUME = ["fake git/hg stand in for the real tools: verified is the argv bumpver issues and the order, not the tools' reaction",
          "status text in the fixed two-column form 'M  path' (the porcelain parsing itself is C11's subject)"]


def decode(i):
    case = {}
    for name, vals in reversed(DIMS):
        i, k = divmod(i, len(vals))
        case[name] = vals[k]
    return case


class Domain:
    """thorough: the whole product.  quick: a stride-47 sample of the whole product (47 is coprime to every dimension
    size, so all values and pairs are covered) plus a stride-17 sample of the half that can reach the commit step
    (config commit on, no --no-commit), where most of the behaviour lives."""

    def __init__(self, tier, seed):
        if tier == "thorough":
            self.idx = range(TOTAL)
        else:
            a = list(range(seed % 47, TOTAL, 47))
            deep = [i for i in range(TOTAL) if decode(i)["cfg_commit"] and decode(i)["cli_commit"] is not False]
            b = deep[seed % 17::17]
            self.idx = sorted(set(a) | set(b))

    def __len__(self):
        return len(self.idx)

    def __getitem__(self, j):
        return dict(decode(self.idx[j]), fault=None)


_DOM = {}


def domain(tier):
    seed = int(os.environ.get("VERIF_SEED", "1") or "1")
    if (tier, seed) not in _DOM:
        _DOM[tier, seed] = Domain(tier, seed)
    return _DOM[tier, seed]


def fault_domain(tier):
    """configurations that reach commit/tag/push, each with every fault kind"""
    out = []
    step = 1 if tier == "thorough" else 5
    k = 0
    for cfg_tag, cfg_push, pre, post, tagmsg, remote, fetch, vcs in itertools.product(
            [False, True], [False, True], ["absent", "ok"], ["absent", "ok"], ["", "msg {new_version}"], [True, False], [True, False], ["git", "hg"]):
        for fault in FAULT_KINDS:
            for nth in (1, 2):
                if nth == 2 and fault != "add":
                    continue
                k += 1
                if k % step:
                    continue
                out.append({"cfg_commit": True, "cfg_tag": cfg_tag, "cfg_push": cfg_push, "cli_commit": None, "cli_tag": None,
                            "cli_push": None, "pre": pre, "post": post, "tree": "clean", "allow_dirty": False, "tag_message": tagmsg,
                            "remote": remote, "dry": False, "fetch": fetch, "vcs": vcs, "fault": fault, "fault_n": nth})
    return out


def scope_domain(tier):
    """tag scope / --ignore-vcs-tag / --set-version decide whether a second tag listing (uniqueness) happens: none of
    them may ever fetch on its own, and --no-fetch must hold for every listing"""
    out = []
    for scope, ignore, setv, fetch, remote, vcs, dry in itertools.product(
            ["default", "global", "branch"], [False, True], [False, True], [True, False], [True, False], ["git", "hg"], [False, True]):
        out.append({"cfg_commit": True, "cfg_tag": True, "cfg_push": False, "cli_commit": None, "cli_tag": None, "cli_push": None,
                    "pre": "absent", "post": "absent", "tree": "clean", "allow_dirty": False, "tag_message": "", "remote": remote,
                    "dry": dry, "fetch": fetch, "vcs": vcs, "fault": None, "scope": scope, "ignore": ignore, "set_version": setv})
    return out


OLD, NEW = "1.2.3", "1.2.4"
FILES = ["a.txt", "bumpver.toml"]


def model(c):
    """-> dict(events=[...], fail=bool, rewritten=bool, contradiction=bool)"""
    ev = []
    fault, fault_n = c.get("fault"), c.get("fault_n", 1)
    seen = {}

    def step(kind, *info):
        """append; -> False when this step is the injected failure"""
        ev.append((kind,) + info)
        seen[kind] = seen.get(kind, 0) + 1
        return not (fault == kind and seen[kind] == fault_n)

    # config validity
    if (c["cfg_tag"] or c["cfg_push"]) and not c["cfg_commit"]:
        return {"events": [], "fail": True, "rewritten": False, "contradiction": True}
    commit, tag, push = c["cfg_commit"], c["cfg_tag"], c["cfg_push"]
    if c["cli_commit"] is False and (c["cli_tag"] or c["cli_push"]):
        return {"events": [], "fail": True, "rewritten": False, "contradiction": True}
    if c["cli_commit"] is not None:
        commit = c["cli_commit"]
    if not commit and (c["cli_tag"] or c["cli_push"]):
        return {"events": [], "fail": True, "rewritten": False, "contradiction": True}
    if c["cli_tag"] is not None:
        tag = c["cli_tag"]
    if c["cli_push"] is not None:
        push = c["cli_push"]
    # start version from the VCS tags
    scope = c.get("scope", "default")
    if not c.get("ignore"):
        if c["fetch"] and c["remote"]:
            if not step("fetch"):
                return {"events": ev, "fail": True, "rewritten": False, "contradiction": False}
        if not step("tags_merged" if scope == "branch" else "tags_all"):
            return {"events": ev, "fail": True, "rewritten": False, "contradiction": False}
    if scope == "branch" or c.get("set_version") or c.get("ignore"):
        # uniqueness of the new version among all tags: a plain listing, never a fetch
        if not step("tags_all"):
            return {"events": ev, "fail": True, "rewritten": False, "contradiction": False}
    if c["dry"]:
        return {"events": ev, "fail": False, "rewritten": False, "contradiction": False}
    if commit:
        if not step("status"):
            return {"events": ev, "fail": True, "rewritten": False, "contradiction": False}
        dirty = c["tree"] != "clean"
        if dirty and not c["allow_dirty"]:
            return {"events": ev, "fail": True, "rewritten": False, "contradiction": False}
        if c["tree"] == "pattern-file-dirty":
            return {"events": ev, "fail": True, "rewritten": False, "contradiction": False}
    # rewrite
    if not commit:
        return {"events": ev, "fail": False, "rewritten": True, "contradiction": False}
    if c["pre"] != "absent":
        ev.append(("hook:pre-hook", OLD, NEW))
        if c["pre"] == "fails":
            return {"events": ev, "fail": True, "rewritten": True, "contradiction": False}
    for n in range(len(FILES)):
        if not step("add"):
            # the log shows n+1 add invocations (the failing one included), then nothing
            del ev[-(n + 1):]
            ev.append(("add-all",) if n + 1 == len(FILES) else ("add-partial", n + 1))
            return {"events": ev, "fail": True, "rewritten": True, "contradiction": False}
    ev[-len(FILES):] = [("add-all",)]
    if not step("commit"):
        return {"events": ev, "fail": True, "rewritten": True, "contradiction": False}
    if c["post"] != "absent":
        ev.append(("hook:post-hook", OLD, NEW))
        if c["post"] == "fails":
            return {"events": ev, "fail": True, "rewritten": True, "contradiction": False}
    if tag:
        msg = c["tag_message"].replace("{new_version}", NEW)
        if not step("tag", "annotated" if msg else "light", msg):
            return {"events": ev, "fail": True, "rewritten": True, "contradiction": False}
    if push and c["remote"]:
        if not step("push", "with-tag" if tag else "plain"):
            return {"events": ev, "fail": True, "rewritten": True, "contradiction": False}
    return {"events": ev, "fail": False, "rewritten": True, "contradiction": False}


def observe(recs, vcs):
    """project the argv log onto the model's event vocabulary"""
    ev = []
    adds = []
    for rec in recs:
        k = fakevcs.kind_of(rec)
        if k in ("usable", "remote", "branches", "other"):
            continue
        if k == "add":
            adds.append(rec[-1])
            continue
        if adds:
            ev.append(("add-all",) if sorted(adds) == sorted(FILES) and len(adds) == len(FILES) else ("add-partial", len(adds)))
            adds = []
        if k.startswith("hook:"):
            ev.append((k, rec[2], rec[3]))
        elif k == "tag":
            args = rec[2:]
            if vcs == "git":
                if args[:1] == ["--annotate"] and len(args) == 4 and args[1] == NEW and args[2] == "--message":
                    ev.append(("tag", "annotated", args[3]))
                elif args == [NEW]:
                    ev.append(("tag", "light", ""))
                else:
                    ev.append(("tag", "malformed", repr(args)))
            else:
                if len(args) == 3 and args[0] == NEW and args[1] == "--message":
                    ev.append(("tag", "annotated", args[2]))
                elif args == [NEW]:
                    ev.append(("tag", "light", ""))
                else:
                    ev.append(("tag", "malformed", repr(args)))
        elif k == "push":
            args = rec[2:]
            if vcs == "git":
                if len(args) == 4 and args[1:] == ["--follow-tags", NEW, "HEAD"]:
                    ev.append(("push", "with-tag"))
                elif len(args) == 2 and args[1] == "HEAD":
                    ev.append(("push", "plain"))
                else:
                    ev.append(("push", "malformed", repr(args)))
            else:
                ev.append(("push", "with-tag" if args == [NEW] else "plain" if args == [] else "malformed"))
        elif k == "tags_merged":
            ev.append(("tags_merged",))
        else:
            ev.append((k,))
    if adds:
        ev.append(("add-all",) if sorted(adds) == sorted(FILES) and len(adds) == len(FILES) else ("add-partial", len(adds)))
    return ev


def check(case):
    c = case
    tmp = tempfile.mkdtemp(prefix="c10_")
    fvdir = tempfile.mkdtemp(prefix="c10fv_")
    try:
        fv = fakevcs.FakeVCS(tmp, c["vcs"], state_dir=fvdir)
        options = {"commit": c["cfg_commit"], "tag": c["cfg_tag"], "push": c["cfg_push"], "tag_message": c["tag_message"],
                   "commit_message": "bump {old_version} -> {new_version}"}
        if c.get("scope"):
            options["tag_scope"] = c["scope"]
        env_extra = {}
        if c["pre"] != "absent":
            options["pre_commit_hook"] = fv.install_hook("pre-hook")
            env_extra["FAKEVCS_HOOK_PRE_EXIT"] = "1" if c["pre"] == "fails" else "0"
        if c["post"] != "absent":
            options["post_commit_hook"] = fv.install_hook("post-hook")
            env_extra["FAKEVCS_HOOK_POST_EXIT"] = "1" if c["post"] == "fails" else "0"
        # outside the scope part the config lags behind the newest tag (1.2.2 < 1.2.3): the version the update starts from,
        # and the one the hooks must be told, is the tag's
        cfg_version = OLD if c.get("scope") else "1.2.2"
        spec = {"current_version": cfg_version, "version_pattern": "MAJOR.MINOR.PATCH", "options": options, "files": [["a.txt", ["v={version};"]]]}
        projgen.write_file(tmp, "bumpver.toml", projgen.toml_config(spec))
        projgen.write_file(tmp, "a.txt", "v=%s;\n" % cfg_version)
        projgen.write_file(tmp, "other.txt", "unrelated\n")
        fv.set("status", {"clean": "", "unrelated-dirty": "M  other.txt\n", "pattern-file-dirty": "M  a.txt\n"}[c["tree"]])
        fv.set("tags_all", "1.2.0\n1.2.3\nnot-a-version\n" if c["vcs"] == "git" else "tip   5:abc\n1.2.3   4:def\n1.2.0   2:aaa\n")
        fv.set("tags_merged", "1.2.0\n1.2.3\n" if c["vcs"] == "git" else "1.2.3\n1.2.0\n")
        if c["remote"]:
            fv.set("remote", "git@example.org:x/y.git\n" if c["vcs"] == "git" else "default = https://example.org/hg\n")
        args = ["update"] + (["--set-version", NEW] if c.get("set_version") else ["--patch"])
        if c.get("ignore"):
            args.append("--ignore-vcs-tag")
        args.append("--fetch" if c["fetch"] else "--no-fetch")
        for name, flag in (("cli_commit", "commit"), ("cli_tag", "tag-commit"), ("cli_push", "push")):
            if c[name] is True:
                args.append("--" + flag)
            elif c[name] is False:
                args.append("--no-" + flag)
        if c["allow_dirty"]:
            args.append("--allow-dirty")
        if c["dry"]:
            args.append("--dry")
        before = projgen.snapshot(tmp)
        r = bv.run(args, cwd=tmp, env=fv.env(fail=c.get("fault"), fail_n=c.get("fault_n", 1), extra=env_extra))
        after = projgen.snapshot(tmp)
        recs = fv.records()
        m = model(c)
        got = observe(recs, c["vcs"])
        want = [tuple(e) for e in m["events"]]
        reaches_commit = any(e[0] in ("add-all", "add-partial", "commit") for e in want)
        nt = reaches_commit or m["contradiction"] or c.get("fault") is not None
        sig = {"vcs": c["vcs"], "dry": c["dry"], "fault": c.get("fault")}
        detail = {"case": c, "args": args, "expected_events": want, "observed_events": got, "exit": r.exit, "stderr": r.err[-600:], "exc": r.exc}
        classes = [c["vcs"]]
        if m["contradiction"]:
            classes.append("contradiction")
        if reaches_commit:
            classes.append("reaches-commit")
        if c.get("fault"):
            classes.append("fault:" + c["fault"])
        if got != want:
            # name the first divergence
            i = next((k for k in range(min(len(got), len(want))) if got[k] != want[k]), min(len(got), len(want)))
            g = got[i][0] if i < len(got) else "nothing"
            w = want[i][0] if i < len(want) else "nothing"
            return viol(f"step-sequence-differs:expected-{w}-observed-{g}", dict(sig, expected=w, observed=g), detail, nt=nt, classes=tuple(classes))
        if (r.exit != 0) != m["fail"]:
            return viol("exit-status-differs:" + ("should-fail" if m["fail"] else "should-succeed"), sig, detail, nt=nt, classes=tuple(classes))
        changed = projgen.diff_snap(before, after)
        changed = [p for p in changed if not p.startswith("hooks/")]
        if m["rewritten"] and sorted(changed) != sorted(FILES):
            return viol("files-not-rewritten-as-expected", sig, dict(detail, changed=changed), nt=nt, classes=tuple(classes))
        if not m["rewritten"] and changed:
            return viol("files-changed-although-rewrite-step-not-reached", sig, dict(detail, changed=changed), nt=nt, classes=tuple(classes))
        return ok(nt=nt, classes=tuple(classes))
    finally:
        shutil.rmtree(tmp, ignore_errors=True)
        shutil.rmtree(fvdir, ignore_errors=True)


def selftest():
    if TOTAL != 8 * 27 * 9 * 6 * 2 * 2 * 2 * 2 * 2:
        raise HarnessError("dimension table")


PARTS = [
    Part("configurations", check=check, domain=domain, exhaustive=lambda tier: tier == "thorough"),
    Part("single-vcs-faults", check=check, domain=fault_domain, exhaustive=lambda tier: tier == "thorough"),
    Part("scope-and-uniqueness-listings", check=check, domain=scope_domain, exhaustive=lambda tier: True),
]

MANIFEST = {
    "text": f"Enumeration of the full configuration lattice ({TOTAL} configurations, thorough tier; a 1/47 stride sample in the "
            "quick tier) against fake git/hg executables, plus injected failure of each VCS command kind in turn; the logged "
            "argv sequence is compared with a reference sequencer.",
    "note": "Fake VCS executables (no Mercurial in the sandbox): what is verified is the argv bumpver issues and its order. "
            "One bump scenario (MAJOR.MINOR.PATCH --patch, two configured files).",
    "technique": "exhaustive enumeration of the configuration lattice + fault injection, reference-model (sequencer) oracle",
}
