"""C08 - any sequence of updates keeps files, config and tags in agreement (histories, real git)."""
import os
import re
import shutil
import tempfile
import datetime as dt

from harness.core import Part, ok, viol, discard
from harness import dp, bv, grammar, projgen, gitbox, pep440ref
from harness.refmodel import parts_of, pattern_str, ref_render, ref_parse_all, with_defaults, state_eq_on

ID = "C08"
LEVEL = "exploration"
RULE = ("Model-based histories on real git: one Hypothesis binary draw is decoded into a project (PEP 440-shaped grammar pattern - "
        "only there is 'a further update is always possible' meaningful, other separators fall back to the legacy string order - "
        "with a bumpable part, 1..3 files x 1..2 patterns, commit on, tag on/off, tag scope, optional local bare 'origin' with push on) and a "
        "history of 1..12 operations: update (random flags, non-decreasing dates), update that must fail (inapplicable flag, "
        "lower --set-version, a pattern made non-matching and restored afterwards), update --no-commit, update "
        "--no-tag-commit, update --dry, committing the pending change, an unrelated commit, creating / switching branches. "
        "Runs that leave a version untagged are only generated under tag scope 'default' (under global/branch the documented "
        "start version is the newest tag). After EVERY step: config current_version and every planted occurrence denote one "
        "and the same version (whole files = template re-filled); after every successful update that version is the announced "
        "one, `show` reports it, it is strictly greater than the version the update started from and than every tag in scope; "
        "a committing update added exactly one commit whose changed paths are the configured files whose bytes changed; with "
        "tagging on the tag set grew by exactly {V} pointing at that commit; a non-committing, dry or failing invocation added "
        "no commit and no tag; after every successful update `update --dry` with an always-bumping flag exits 0. "
        "Non-trivial: >= 3 successful updates and at least one of {failing invocation, --no-commit, branch switch}.")
ASSUME = ["real git 2.39 in a hermetic environment; local bare repository as 'origin'",
          "version strings must be valid git ref names (patterns whose versions are not are discarded and counted)",
          "sampled histories, not all interleavings"]

REF_BAD = re.compile(r"[\x00-\x20~^:?*\[\\\x7f]|\.\.|@\{|//|^/|/$|\.$|\.lock$|^-|/\.|^\.")
BUMP = [("PATCH", "patch"), ("MINOR", "minor"), ("MAJOR", "major")]


def build(d):
    for _ in range(4):
        nodes, state, text = grammar.gen_pep440_pattern_and_state(d)
        if nodes is None:
            continue
        parts = set(parts_of(nodes))
        lits = "".join(n[1] for n in _walk(nodes) if n[0] == "lit")
        if "/" in lits or "~" in lits or not (parts & {"BUILD", "BLD", "INC0", "INC1", "PATCH", "MINOR", "MAJOR"}):
            continue
        if any(state.get(f) == 53 for f in ("week_w", "week_u")) or parts & {"WW", "0W", "UU", "0U"}:
            continue  # week 53 cannot be read back (finding F1): keep histories clear of it
        if not 2001 <= grammar.date_of(state).year <= 2090:
            continue
        flat = list(_walk(nodes))
        if any(a[0] == "part" and b[0] == "part" and b[1] not in grammar.FIXED_WIDTH and b[1] not in ("TAG", "PYTAG", "NUM")
               for a, b in zip(flat, flat[1:])):
            continue  # a variable-width part glued to its predecessor (0GVV: 8248 -> 841, 0YINC0: 01257 -> 020) is not monotone by nature
        break
    else:
        return {"discard": "no-suitable-pattern"}
    spec = projgen.gen_project(d, nodes, state, pep_shaped=False, max_files=3, max_patterns=2, regimes=["lf", "lf", "crlf"], allow_glob=False)
    spec["bystanders"] = []
    scope = d.choice(["default", "default", "global", "branch"])
    tag = True if scope != "default" else d.chance(3, 4)
    origin = d.chance(1, 3)
    ops = []
    for _ in range(d.int(1, 12)):
        k = d.int(0, 19)
        if k < 9:
            ops.append({"op": "update", "days": d.choice([0, 0, 1, 3, 31, 200]), "flag": d.int(0, 3), "tag": d.choice([None, None, None, "rc", "final", "post"]),
                        "fetch": origin and d.bool()})
        elif k < 11:
            ops.append({"op": "update-fail", "how": d.choice(["inapplicable-flag", "lower-set-version", "broken-pattern"])})
        elif k == 11:
            ops.append({"op": "no-commit", "days": d.choice([0, 1, 40])} if scope == "default" else {"op": "update", "days": 1, "flag": 0, "tag": None, "fetch": False})
        elif k == 12:
            ops.append({"op": "no-tag", "days": d.choice([0, 1, 40])} if scope == "default" else {"op": "update", "days": 2, "flag": 1, "tag": None, "fetch": False})
        elif k == 13:
            ops.append({"op": "dry", "days": d.choice([0, 5])})
        elif k == 14:
            ops.append({"op": "commit-pending"})
        elif k < 17:
            ops.append({"op": "unrelated-commit"})
        elif k == 17 and d.bool():
            # the same bump on two branches: under branch scope the second one meets the first one's tag
            f = d.int(0, 3)
            ops += [{"op": "new-branch"}, {"op": "update", "days": 0, "flag": f, "tag": None, "fetch": False}, {"op": "switch", "k": 0},
                    {"op": "update", "days": 0, "flag": f, "tag": None, "fetch": False}]
        elif k == 17:
            ops.append({"op": "new-branch"})
        else:
            ops.append({"op": "switch", "k": d.int(0, 5)})
    return {"spec": spec, "scope": scope, "tag": tag, "origin": origin, "ops": ops}


def _walk(nodes):
    for n in nodes:
        if n[0] == "opt":
            yield from _walk(n[1])
        else:
            yield n


class World:
    def __init__(self, case, root):
        self.case = case
        self.spec = case["spec"]
        self.ast = self.spec["ast"]
        self.root = root
        self.repo = os.path.join(root, "work")
        self.env = gitbox.env(root)
        self.date = grammar.date_of(self.spec["state"])
        self.branch = "main"
        self.branches = ["main"]
        self.state = {"main": dict(self.spec["state"])}  # version state of the files on each branch
        self.pending = False
        self.successes = 0
        self.flavours = set()
        self.steps = 0

    def git(self, *a, **k):
        return gitbox.git(self.repo, *a, **k)

    def setup(self):
        os.makedirs(self.repo)
        options = {"commit": True, "tag": self.case["tag"], "push": bool(self.case["origin"]), "tag_scope": self.case["scope"]}
        projgen.materialize(self.spec, self.repo, self.spec["state"], options)
        self.options = options
        projgen.write_file(self.repo, "unrelated.txt", "0\n")
        gitbox.init(self.repo)
        # an untracked file that is never added: it must neither block updates nor end up in a bump commit
        projgen.write_file(self.repo, "notes.tmp", "scratch\n")
        if self.case["origin"]:
            bare = os.path.join(self.root, "origin.git")
            gitbox.git(self.root, "init", "-q", "--bare", "-b", "main", bare)
            self.git("remote", "add", "origin", bare)
            self.git("push", "-q", "-u", "origin", "main")

    def cur_text(self):
        return ref_render(self.ast, self.state[self.branch])

    def files_consistent(self):
        """-> None | detail: every configured file equals its template filled with ONE version state"""
        want = projgen.expected_files(self.spec, self.state[self.branch], self.options)
        for path, text in want.items():
            with open(os.path.join(self.repo, path), "rb") as f:
                have = f.read().decode("utf-8")
            if have != text:
                hl, wl = have.splitlines(True), text.splitlines(True)
                i = next((k for k in range(min(len(hl), len(wl))) if hl[k] != wl[k]), min(len(hl), len(wl)))
                return {"file": path, "have": hl[i:i + 1], "want": wl[i:i + 1], "expected_version": self.cur_text()}
        return None

    def bump_flags(self, n):
        parts = list(parts_of(self.ast))
        avail = [f for p, f in BUMP if p in parts]
        if not avail:
            return []
        return ["--" + avail[n % len(avail)]]

    def tags_in_scope(self):
        if self.case["scope"] == "branch":
            return [t for t in self.git("tag", "--list", "--merged").split("\n") if t]
        return gitbox.tags(self.repo)


def run_history(case):
    if "discard" in case:
        return discard(case["discard"])
    spec = case["spec"]
    if projgen.construction_ok(spec, spec["state"]):
        return discard("construction-self-check")
    if REF_BAD.search(ref_render(spec["ast"], spec["state"])):
        return discard("version-not-a-valid-git-ref-name")
    root = tempfile.mkdtemp(prefix="c08_")
    w = World(case, root)
    trace = []
    try:
        w.setup()
        for i, op in enumerate(case["ops"]):
            bad = step(w, op, trace)
            w.steps += 1
            if bad == "DISCARD":
                return discard("version-not-a-valid-git-ref-name")
            if bad:
                bucket, sig, detail = bad
                detail = dict(detail, step=i, op=op, trace=trace[-8:], pattern=pattern_str(w.ast), scope=case["scope"], tag=case["tag"])
                return viol(bucket, dict(sig, op=op["op"], scope=case["scope"]), detail, n=w.steps)
            inc = w.files_consistent()
            if inc:
                return viol("files-and-config-disagree-after-step", {"op": op["op"], "scope": case["scope"]},
                            dict(inc, step=i, op=op, trace=trace[-8:], pattern=pattern_str(w.ast)), n=w.steps)
        nt = w.successes >= 3 and bool(w.flavours & {"failing", "no-commit", "switch"})
        classes = ["scope:" + case["scope"]] + sorted("did:" + f for f in w.flavours) + [("successful-updates", w.successes)]
        return ok(nt=nt, classes=tuple(classes), n=max(1, w.steps))
    finally:
        shutil.rmtree(root, ignore_errors=True)


def step(w, op, trace):
    """-> None | 'DISCARD' | (bucket, sig, detail)"""
    kind = op["op"]
    if kind == "unrelated-commit":
        if w.pending:
            return None
        with open(os.path.join(w.repo, "unrelated.txt"), "a") as f:
            f.write("x\n")
        w.git("add", "unrelated.txt")
        w.git("commit", "-q", "-m", "unrelated")
        trace.append("unrelated-commit")
        return None
    if kind == "commit-pending":
        if w.pending:
            w.git("add", "-u")
            w.git("commit", "-q", "-m", "pending version change")
            w.pending = False
            trace.append("commit-pending")
        return None
    if kind == "new-branch":
        if w.pending or len(w.branches) >= 3:
            return None
        name = "b%d" % len(w.branches)
        w.git("checkout", "-q", "-b", name)
        w.branches.append(name)
        w.state[name] = dict(w.state[w.branch])
        w.branch = name
        w.flavours.add("switch")
        trace.append("new-branch " + name)
        return None
    if kind == "switch":
        if w.pending or len(w.branches) < 2:
            return None
        name = w.branches[op["k"] % len(w.branches)]
        if name != w.branch:
            w.git("checkout", "-q", name)
            w.branch = name
            w.flavours.add("switch")
            trace.append("switch " + name)
        return None
    # ---- bumpver invocations
    days = op.get("days", 0)
    w.date = min(w.date + dt.timedelta(days=days), dt.date(2098, 12, 1))
    args = ["update", "--date", w.date.isoformat()]
    args.append("--fetch" if op.get("fetch") else "--no-fetch")
    expect_fail = False
    restore = None
    committing = True
    tagging = w.case["tag"]
    if kind == "update":
        args += w.bump_flags(op["flag"])
        if op.get("tag") and set(parts_of(w.ast)) & {"TAG", "PYTAG"}:
            args += ["--tag", op["tag"]]
    elif kind == "no-commit":
        args += w.bump_flags(0) + ["--no-commit"]
        committing = tagging = False
    elif kind == "no-tag":
        args += w.bump_flags(1) + ["--no-tag-commit"]
        tagging = False
    elif kind == "dry":
        args += w.bump_flags(2) + ["--dry"]
        committing = tagging = False
    elif kind == "update-fail":
        expect_fail = True
        how = op["how"]
        parts = list(parts_of(w.ast))
        if how == "inapplicable-flag":
            args += ["--tag", "gamma"]
        elif how == "lower-set-version":
            args += ["--set-version", w.cur_text()]
        else:
            # break the first pattern of the first file, restore afterwards
            f0 = w.spec["files"][0]
            p = os.path.join(w.repo, f0["path"])
            with open(p, "rb") as f:
                restore = (p, f.read())
            pat = w.spec["patterns"][next(v for segs in f0["lines"] for k, v in segs if k == "o")]
            with open(p, "wb") as f:
                f.write(restore[1].replace(pat["d1"].encode("utf-8"), b"BROKEN "))
            if w.pending:
                pass
            args += w.bump_flags(0)
    head0 = gitbox.head(w.repo)
    tags0 = set(gitbox.tags(w.repo))
    scope_tags0 = w.tags_in_scope()
    tree0 = projgen.snapshot(w.repo)
    start_expected = expected_start(w, scope_tags0)
    r = bv.run(args, cwd=w.repo, env=w.env, today=w.date)
    head1 = gitbox.head(w.repo)
    tags1 = set(gitbox.tags(w.repo))
    trace.append("%s %s -> exit %d %s" % (kind, " ".join(args[1:]), r.exit, r.new_version if r.exit == 0 else ""))
    detail = {"args": args, "exit": r.exit, "stderr": r.err[-600:], "exc": r.exc, "branch": w.branch, "tags_before": sorted(tags0), "tags_after": sorted(tags1)}
    if restore:
        # the broken pattern run must have failed without touching anything; then restore the file
        tree1 = projgen.snapshot(w.repo)
        with open(restore[0], "wb") as f:
            f.write(restore[1])
        if r.exit == 0 or head1 != head0 or tags1 != tags0 or tree1 != tree0:
            return ("update-with-non-matching-pattern-had-effects", {}, detail)
        w.flavours.add("failing")
        return None
    if r.crashed and "max lexical version reached" in (r.exc or ""):
        return "DISCARD"
    if r.exit != 0:
        if head1 != head0 or tags1 != tags0:
            return ("failing-invocation-added-commit-or-tag", {"expected_fail": expect_fail}, detail)
        w.flavours.add("failing")
        return None
    if expect_fail:
        return ("invocation-that-must-fail-succeeded", {"how": op["how"]}, detail)
    N = r.new_version
    if N is None or REF_BAD.search(N):
        return "DISCARD" if N else ("exit0-without-version", {}, detail)
    ps = ref_parse_all(w.ast, N)
    if len(ps) != 1:
        return ("announced-version-not-uniquely-readable", {}, dict(detail, announced=N))
    detail["announced"] = N
    detail["old_version_announced"] = r.old_version
    if r.old_version not in start_expected:
        return ("update-started-from-unexpected-version", {}, dict(detail, expected_one_of=start_expected))
    if not pep440ref.key(N) > pep440ref.key(r.old_version):
        return ("new-version-not-greater-than-start", {}, detail)
    for t in scope_tags0:
        if ref_parse_all(w.ast, t) and not pep440ref.key(N) > pep440ref.key(t):
            return ("new-version-not-greater-than-tag-in-scope", {}, dict(detail, tag=t))
    if kind == "dry":
        if head1 != head0 or tags1 != tags0 or projgen.snapshot(w.repo) != tree0:
            return ("dry-run-had-effects", {}, detail)
        return None
    # successful real update
    w.state[w.branch] = with_defaults(w.ast, ps[0])
    w.state[w.branch].update({k: v for k, v in w.spec["state"].items() if k not in w.state[w.branch]})
    w.successes += 1
    tree1 = projgen.snapshot(w.repo)
    changed = set(projgen.diff_snap(tree0, tree1))
    n_new = int(w.git("rev-list", "--count", head0 + "..HEAD").strip())
    if committing:
        if w.pending:
            return ("committing-update-ran-on-dirty-pattern-files", {}, detail)
        if n_new != 1:
            return ("committing-update-did-not-add-exactly-one-commit", {}, dict(detail, new_commits=n_new))
        paths = {x for x in w.git("show", "--name-only", "--format=", "-z", "HEAD").split("\0") if x}
        configured = {f["path"] for f in w.spec["files"]} | {"bumpver.toml"}
        if not paths <= configured or paths != changed:
            return ("bump-commit-paths-differ-from-changed-configured-files", {}, dict(detail, commit_paths=sorted(paths), changed=sorted(changed)))
        if w.git("status", "--porcelain", "--untracked-files=no").strip():
            return ("tree-dirty-after-committing-update", {}, dict(detail, status=w.git("status", "--porcelain")))
    else:
        if n_new != 0:
            return ("non-committing-update-added-commit", {}, detail)
        w.pending = True
        w.flavours.add("no-commit")
    if committing and tagging:
        if tags1 - tags0 != {N} or tags0 - tags1:
            return ("tag-set-did-not-grow-by-exactly-the-new-version", {}, detail)
        if w.git("rev-list", "-n", "1", N).strip() != head1:
            return ("tag-does-not-point-at-bump-commit", {}, detail)
        if w.case["origin"]:
            remote_tags = gitbox.git(os.path.join(w.root, "origin.git"), "tag", "--list").split()
            if N not in remote_tags:
                return ("tag-not-pushed", {}, dict(detail, remote_tags=remote_tags))
    else:
        if tags1 != tags0:
            return ("untagged-invocation-changed-tags", {}, detail)
        if kind == "no-tag":
            w.flavours.add("no-tag")
    inc = w.files_consistent()
    if inc:
        return ("occurrence-or-config-stale-after-update", {}, dict(detail, **inc))
    rs = bv.run(["show", "--no-fetch"], cwd=w.repo, env=w.env, today=w.date)
    if rs.exit != 0 or rs.field("Current Version", "out") != N:
        return ("show-does-not-report-new-version", {}, dict(detail, show=rs.summary(300)))
    if not w.pending:
        later = min(w.date + dt.timedelta(days=400), dt.date(2099, 6, 1))
        rd = bv.run(["update", "--dry", "--no-fetch", "--date", later.isoformat()] + w.bump_flags(0), cwd=w.repo, env=w.env, today=later)
        if rd.exit != 0 and not (rd.crashed and "max lexical" in (rd.exc or "")):
            return ("no-further-update-possible", {}, dict(detail, next=rd.summary(500)))
    return None


def expected_start(w, scope_tags):
    cfgv = w.cur_text()
    M = [t for t in scope_tags if ref_parse_all(w.ast, t)]
    if not M:
        return [cfgv]
    top = max(pep440ref.key(t) for t in M)
    best = [t for t in M if pep440ref.key(t) == top]
    if w.case["scope"] == "default":
        return best if top > pep440ref.key(cfgv) else [cfgv]
    return best


PARTS = [
    Part("histories", check=run_history, strategy=lambda: dp.cases(build, size=700), n={"quick": 640, "thorough": 9600}, max_discard=0.3),
]

MANIFEST = {
    "text": "Model-based (stateful) histories of up to 12 invocations on real git repositories with branches, an optional local "
            "origin, failing and partial (--no-commit / --no-tag-commit / --dry) runs; after every step the complete files, the "
            "config, `show`, the commit graph and the tag set are checked against the model's invariants.",
    "note": "Sampled histories (640 quick / 9600 thorough), not all interleavings; evaluations = executed steps. Histories are "
            "generated as decoded operation lists (JSON-replayable) and interpreted against a model - the same technique as a "
            "rule-based state machine. Real git only.",
    "technique": "stateful / model-based property testing (Hypothesis-generated operation sequences, invariants after every step) on real git",
}
