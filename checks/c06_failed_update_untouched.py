"""C06 - a failed update leaves the project untouched (fault enumeration)."""
import os
import copy
import shutil
import tempfile
import datetime as dt

from harness.core import Part, ok, viol, discard
from harness import dp, bv, grammar, projgen, fakevcs, pep440ref
from harness.refmodel import pattern_str, ref_render

ID = "C06"
LEVEL = "fault_enumeration"
RULE = ("Hypothesis (one binary draw decoded) generates projects of 1..5 files x 1..3 patterns in shuffled file order, v2 "
        "(grammar G) and legacy ({pycalver}, {semver}, v{year}{month}{build}{release}) version patterns, commit off or commit "
        "on with a fake git whose argv is logged. For EACH project EVERY single fault is enumerated: each (file, pattern) "
        "made non-matching (its occurrences removed / its closing delimiter altered), each configured file deleted, and "
        "the new version rejected (--set-version lower, equal, malformed). Per fault: snapshot, `update --dry`, then real "
        "`update` with the same arguments. Oracle: real run exits != 0; every file byte-identical to the snapshot; the VCS "
        "log shows no add/commit/tag/push; the dry run changed nothing. evaluations = faults injected; non-trivial = at "
        "least one healthy configured file precedes the faulty one in processing order.")
ASSUME = ["fake git (fakevcs/git) stands in for git: what is verified is the argv bumpver issues",
          "one fault at a time (single-fault enumeration), not combinations"]

def build(d):
    legacy = d.chance(1, 4)
    if legacy:
        spec, flags, date = projgen.gen_legacy_project(d)
    else:
        nodes, state, old = grammar.gen_pattern_and_state(d, safe_seps=True)
        if nodes is None:
            return {"discard": state}
        spec = projgen.gen_project(d, nodes, state, pep_shaped=False, max_files=5, max_patterns=3, regimes=["lf", "lf", "crlf", "cr"],
                                   allow_partial=True, share_patterns=True, cover_config=d.chance(1, 4))
        spec["legacy"] = False
        flags, date = projgen.gen_bump(d, nodes, state)
    return {"spec": spec, "flags": flags, "date": date, "commit": d.chance(1, 2), "tag": d.bool(), "fault_style": d.choice(["remove", "delimiter"])}


def processing_order(spec):
    """configured paths in the order bumpver will process them (config order; glob expansion sorted is unknown, so a
    glob entry counts as its position); the implicit config entry comes last"""
    order = []
    if spec.get("explicit_config_entry"):
        order.append("bumpver.toml")
    for key, _idx in spec["entries"]:
        if key == "*.toml":
            order.append("bumpver.toml")
        elif "*" in key:
            order += [f["path"] for f in spec["files"] if f["path"].startswith("glob/")]
        else:
            order.append(key)
    if "bumpver.toml" not in order:
        order.append("bumpver.toml")
    seen, out = set(), []
    for p in order:
        if p not in seen:
            seen.add(p)
            out.append(p)
    return out


def faults_of(spec):
    fs = []
    for fi, f in enumerate(spec["files"]):
        for pi in sorted({v for segs in f["lines"] for k, v in segs if k == "o"}):
            fs.append({"kind": "nomatch", "file": fi, "pattern": pi})
        fs.append({"kind": "emptied", "file": fi})  # zero bytes: none of its patterns can match
        if any(key == f["path"] for key, _idx in spec["entries"]):
            # a file that is covered by a glob entry only simply drops out of the glob when it is removed
            fs.append({"kind": "missing", "file": fi})
    if spec.get("config_marks"):
        # the config file's own entry (a glob that covers it) loses its occurrence in the config file
        fs.append({"kind": "config-entry-nomatch"})
    fs.append({"kind": "set-version", "how": "equal"})
    fs.append({"kind": "set-version", "how": "malformed"})
    fs.append({"kind": "set-version", "how": "lower"})
    return fs


def apply_fault(spec, fault, style):
    s = copy.deepcopy(spec)
    if fault["kind"] == "config-entry-nomatch":
        s["config_marks"] = []
    if fault["kind"] == "nomatch":
        f = s["files"][fault["file"]]
        for segs in f["lines"]:
            for i, seg in enumerate(segs):
                if seg[0] == "o" and seg[1] == fault["pattern"]:
                    if style == "remove":
                        segs[i] = ["t", "(removed)"]
                    else:
                        pat = spec["patterns"][seg[1]]
                        txt = projgen.occurrence_text(pat, spec["ast"], spec["state"])
                        segs[i] = ["t", txt[:len(txt) - len(pat["d2"])] + "~~"]
    return s


def check(case):
    if "discard" in case:
        return discard(case["discard"])
    spec = case["spec"]
    legacy = spec["legacy"]
    state = spec["state"]
    if not legacy and projgen.construction_ok(spec, state):
        return discard("construction-self-check")
    date = dt.date.fromisoformat(case["date"])
    flags = dict(case["flags"])
    flags.pop("pin_date", None)
    flags["date"] = case["date"]
    base_args = bv.flag_args(flags)
    order = processing_order(spec)
    options = {"commit": True, "tag": case["tag"], "push": False} if case["commit"] else {}
    old = spec.get("old_text") or ref_render(spec["ast"], state)
    out = ok()
    n = nt_n = 0
    seen = set()
    classes = {"legacy" if legacy else "v2": 0, "commit-on" if case["commit"] else "commit-off": 0}
    for fault in faults_of(spec):
        tmp = tempfile.mkdtemp(prefix="c06_")
        try:
            fspec = apply_fault(spec, fault, case["fault_style"])
            projgen.materialize(fspec, tmp, state, options)
            args = list(base_args)
            faulty_path = None
            if fault["kind"] == "missing":
                faulty_path = spec["files"][fault["file"]]["path"]
                os.unlink(os.path.join(tmp, faulty_path))
            elif fault["kind"] == "nomatch":
                faulty_path = spec["files"][fault["file"]]["path"]
            elif fault["kind"] == "config-entry-nomatch":
                faulty_path = "bumpver.toml"
            elif fault["kind"] == "emptied":
                faulty_path = spec["files"][fault["file"]]["path"]
                open(os.path.join(tmp, faulty_path), "w").close()
            else:
                sv = {"equal": old, "malformed": old + ".x y", "lower": "0" if legacy else old}[fault["how"]]
                if fault["how"] == "lower" and not legacy:
                    # a version of the same pattern from an earlier state
                    st2 = dict(state, major=0, minor=0, patch=0, inc0=0, num=0, bid="1000" if int(state["bid"]) > 1000 else "0001")
                    sv = ref_render(spec["ast"], st2)
                    if not pep440ref.key(sv) < pep440ref.key(old):
                        sv = old
                args = [a for a in args] + ["--set-version", sv]
            env = None
            fv = None
            if case["commit"]:
                fv = fakevcs.FakeVCS(tmp, "git", state_dir=tempfile.mkdtemp(prefix="c06fv_"))
                fv.set("status", "")
                env = fv.env()
            before = projgen.snapshot(tmp)
            r_dry = bv.run(["update", "--no-fetch", "--dry"] + args, cwd=tmp, env=env, today=date)
            mid = projgen.snapshot(tmp)
            if fv:
                fv.reset_log()
            r = bv.run(["update", "--no-fetch"] + args, cwd=tmp, env=env, today=date)
            after = projgen.snapshot(tmp)
            n += 1
            for k in classes:
                classes[k] += 1
            healthy_first = faulty_path is not None and order.index(faulty_path) > 0 if faulty_path in order else False
            if healthy_first:
                nt_n += 1
            sig = {"fault": fault["kind"], "healthy_file_first": healthy_first, "legacy": legacy, "commit": case["commit"]}
            detail = {"fault": fault, "faulty_path": faulty_path, "order": order, "args": args, "real": r.summary(300), "dry_exit": r_dry.exit}
            bad = None
            if mid != before:
                bad = ("dry-run-changed-files", dict(detail, changed=projgen.diff_snap(before, mid)))
            elif r.exit == 0:
                bad = ("update-succeeds-despite-" + fault["kind"], detail)
            elif after != before:
                bad = ("failed-update-changed-files:" + fault["kind"], dict(detail, changed=projgen.diff_snap(before, after)))
            elif fv and any(fakevcs.kind_of(rec) in fakevcs.MUTATING for rec in fv.records()):
                bad = ("failed-update-ran-mutating-vcs-command", dict(detail, log=fv.records()))
            if bad and bad[0] not in seen:
                seen.add(bad[0])
                out.more.append((bad[0], sig, bad[1]))
        finally:
            shutil.rmtree(tmp, ignore_errors=True)
            if case["commit"] and fv:
                shutil.rmtree(fv.dir, ignore_errors=True)
    out.n, out.nt_n, out.nt = max(n, 1), nt_n, nt_n > 0
    out.classes = tuple(classes.items()) + (("projects", 1),)
    return out


PARTS = [
    Part("single-faults", check=check, strategy=lambda: dp.cases(build, size=700), n={"quick": 1600, "thorough": 24000}, max_discard=0.1),
]

MANIFEST = {
    "text": "Single-fault enumeration: for every generated project each (file, pattern) is made non-matching, each file is "
            "removed, each file is emptied and the new version is made unacceptable, one at a time; dry run then real run; all bytes of all files "
            "and the fake-VCS argv log are compared with the snapshot.",
    "note": "Projects are sampled (Hypothesis); within a project the single-fault space is enumerated completely. Fake git "
            "only. Combinations of faults are not explored.",
    "technique": "fault enumeration over Hypothesis-generated projects; snapshot/byte-identity oracle",
}
