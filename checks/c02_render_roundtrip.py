"""C02 - rendered versions are accepted by their own pattern and read back unchanged."""
import os
import shutil
import logging
import tempfile
import datetime as dt

from harness.core import Part, Out, ok, viol, discard, HarnessError
from harness import fuzz, dp, bv, grammar, bumpref
from harness.refmodel import (PART_FIELD, PYTAG, parts_of, pattern_str, ref_render, ref_parse_all, with_defaults,
                              selftest_calendar, ref_cal)

from bumpver import version as bv_version
from bumpver import v2version

ID = "C02"
LEVEL = "exploration"
RULE = ("A (exhaustive): every calendar date of the tier's year range (quick: 2001-2099 + 1000, 1004, 1999, 2000, "
        "2100, 9999; thorough: 1000-9999, all 3,287,182 dates) x 19 calendar parts and 16 coherent multi-part date "
        "patterns: cal_info vs arithmetic reference, render -> accepted in full -> parts equal -> re-render identical. "
        "B (Hypothesis, grammar-decoded): pattern from G x reachable state x flags/date: the state rendered directly "
        "and the string returned by v2version.incr (before the CLI gate) must be accepted by the same pattern, read "
        "back part for part (bumpver's reader and the reference recogniser) and re-render byte-identically. "
        "C: CLI chain test -> test, update -> show. Non-trivial: A date on which some part is at a range boundary "
        "or renders with padding; B/C pattern has >= 2 parts or an optional group. Distinct: by construction (A), "
        "distinct case JSON (B, C).")
ASSUME = ["reference renderer/recogniser (harness/refmodel.py) transcribe the README part table",
          "two-digit-year parts are only exercised on 2001..2099, as the property states"]

CAL_PARTS = ["YYYY", "YY", "0Y", "GGGG", "GG", "0G", "Q", "MM", "0M", "DD", "0D", "JJJ", "00J", "WW", "0W", "UU", "0U", "VV", "0V"]
TWO_DIGIT = {"YY", "0Y", "GG", "0G"}
MULTI = ["YYYY.MM.DD", "YYYY0M0D", "YYYY.0M.0D", "YYYY-JJJ", "YYYY00J", "YYYY.WW", "YYYYw0W", "YYYY.UU", "YYYY0U",
         "GGGG.VV", "GGGGw0V", "YY.MM.DD", "0Y0M0D", "YYYY.Q", "GG0V", "0Y.JJJ",
         # the year after another numeric part or a literal digit
         "0D0MYYYY", "DD.MM.YYYY", "00JYYYY", "0VGGGG", "r7YYYY.MM", "0M0Y"]
_BASE = None


def base_vinfo():
    global _BASE
    if _BASE is None:
        _BASE = vinfo_from_state(grammar.state_from(dt.date(2020, 1, 1), major=1, minor=2, patch=3))
    return _BASE


def vinfo_from_state(state):
    return bv_version.V2VersionInfo(
        year_y=state["year_y"], year_g=state["year_g"], quarter=state["quarter"], month=state["month"], dom=state["dom"],
        doy=state["doy"], week_w=state["week_w"], week_u=state["week_u"], week_v=state["week_v"],
        major=state["major"], minor=state["minor"], patch=state["patch"], bid=state["bid"], tag=state["tag"],
        pytag=PYTAG[state["tag"]], githash="", hexhash="", num=state["num"], inc0=state["inc0"], inc1=state["inc1"])


# ------------------------------------------------------------------ A: exhaustive date sweep

_memo = {}


def roundtrip_text(vinfo, pattern, fields):
    """-> None or (bucket, info).  render, accept in full, parts equal, re-render identical"""
    try:
        text = v2version.format_version(vinfo, pattern)
    except Exception as ex:
        return "render-raises", {"exc": repr(ex)}
    try:
        back = v2version.parse_version_info(text, pattern)
    except bv_version.PatternError:
        return "render-not-recognised", {"text": text}
    except Exception as ex:
        return "recogniser-raises", {"text": text, "exc": repr(ex)}
    for f in fields:
        a, b = getattr(vinfo, f), getattr(back, f)
        if f == "bid":
            if ("BLD" in pattern and int(a) != int(b)) or ("BLD" not in pattern and a != b):
                return "part-reads-back-different", {"text": text, "field": f, "rendered": a, "read": b}
        elif a != b:
            return "part-reads-back-different", {"text": text, "field": f, "rendered": a, "read": b}
    try:
        again = v2version.format_version(back, pattern)
    except Exception as ex:
        return "rerender-raises", {"text": text, "exc": repr(ex)}
    if again != text:
        return "rerender-differs", {"text": text, "again": again}
    return None


FIELD_OF = dict(PART_FIELD)
FIELD_OF["TAG"] = "tag"
FIELD_OF["PYTAG"] = "tag"


def pattern_parts(pattern):
    """part names of a pattern (longest match first, so YYYY is not mistaken for YY)"""
    names = sorted(PART_FIELD, key=len, reverse=True)
    out = []
    i = 0
    while i < len(pattern):
        for n in names:
            if pattern.startswith(n, i):
                out.append(n)
                i += len(n)
                break
        else:
            i += 1
    return out


MULTI_HAS_TWO_DIGIT_YEAR = {}


def pattern_fields(pattern):
    import re
    names = sorted(PART_FIELD, key=len, reverse=True)
    out = []
    rest = pattern
    for n in names:
        if n in rest:
            out.append(PART_FIELD[n])
            rest = rest.replace(n, "#")
    return sorted(set(out))


def single_pattern(part):
    """a part is exercised inside the smallest documented context: year parts alone, the others after a year
    part of their own calendar (a pattern made of a lone week number is not a version pattern)"""
    f = PART_FIELD[part]
    if f in ("year_y", "year_g"):
        return part
    return ("GGGG." if f == "week_v" else "YYYY.") + part


_CTX_VINFO = None


def check_year(case):
    global _CTX_VINFO
    if _CTX_VINFO is None:
        _CTX_VINFO = base_vinfo()._replace(year_y=2020, year_g=2020)
    y = case["year"]
    d = dt.date(y, 1, 1)
    end = dt.date(y, 12, 31)
    base = base_vinfo()
    out = ok()
    n = nt_n = 0
    two_ok = 2001 <= y <= 2099
    seen_buckets = set()
    while d <= end:
        n += 1
        ci = v2version.cal_info(d)
        ref = ref_cal(d)
        if ci._asdict() != ref:
            key = ("cal_info-differs",)
            if key not in seen_buckets:
                seen_buckets.add(key)
                out.more.append(("cal_info-differs-from-calendar", {}, {"date": d.isoformat(), "bumpver": ci._asdict(), "ref": ref}))
        vinfo = base._replace(**ci._asdict())
        boundary = d.day <= 7 or d.month == 12 and d.day >= 25 or d.day >= 28 or ref["week_v"] in (1, 52, 53)
        if boundary:
            nt_n += 1
        for part in CAL_PARTS:
            if part in TWO_DIGIT and not (two_ok and 2001 <= ref["year_g"] <= 2099):
                continue
            f = PART_FIELD[part]
            mk = (part, getattr(vinfo, f))
            if mk not in _memo:
                _memo[mk] = roundtrip_text(_CTX_VINFO._replace(**{f: getattr(vinfo, f)}), single_pattern(part), [f])
            bad = _memo[mk]
            if bad:
                key = (bad[0], part, mk[1] if f not in ("year_y", "year_g") else None)
                if key not in seen_buckets:
                    seen_buckets.add(key)
                    out.more.append((bad[0], {"part": part, "value": mk[1]}, dict(bad[1], date=d.isoformat(), pattern=single_pattern(part))))
        for pat in MULTI:
            if pat not in MULTI_HAS_TWO_DIGIT_YEAR:
                MULTI_HAS_TWO_DIGIT_YEAR[pat] = bool(set(pattern_parts(pat)) & TWO_DIGIT)
            if MULTI_HAS_TWO_DIGIT_YEAR[pat] and not (two_ok and 2001 <= ref["year_g"] <= 2099):
                continue
            fields = pattern_fields(pat)
            mk = (pat,) + tuple(getattr(vinfo, f) for f in fields)
            if mk not in _memo:
                if len(_memo) > 400000:
                    _memo.clear()
                _memo[mk] = roundtrip_text(vinfo, pat, fields)
            bad = _memo[mk]
            if bad:
                # attribute to the single part that fails on its own, if any
                culprit = None
                for part in CAL_PARTS:
                    if part in pat and (part not in ("YY", "GG") or "YYYY" not in pat and "GGGG" not in pat) \
                            and _memo.get((part, getattr(vinfo, PART_FIELD[part]))):
                        culprit = part
                        break
                sig = {"part": culprit, "value": getattr(vinfo, PART_FIELD[culprit])} if culprit else {"pattern": pat}
                key = (bad[0], pat, sig.get("value"))
                if key not in seen_buckets:
                    seen_buckets.add(key)
                    out.more.append((bad[0], sig, dict(bad[1], date=d.isoformat(), pattern=pat)))
        if d == end:
            break
        d += dt.timedelta(days=1)
    out.n = n
    out.nt_n = nt_n
    out.nt = True
    out.classes = (("dates", n), ("renderings", n * (len(CAL_PARTS) + len(MULTI))))
    return out


def years(tier):
    if tier == "thorough":
        return [{"year": y} for y in range(1000, 10000)]
    return [{"year": y} for y in [1000, 1004, 1999, 2000] + list(range(2001, 2100)) + [2100, 9999]]


# ------------------------------------------------------------------ B: random patterns x reachable states

OFFSETS = [0, 1, 7, 31, 366, -1, -400]
TAGVALS = ["alpha", "beta", "rc", "dev", "post", "final"]


def build_b(d):
    nodes, state, text = grammar.gen_pattern_and_state(d)
    if nodes is None:
        return {"discard": state}
    parts = set(parts_of(nodes))
    flags = {f: d.chance(1, 3) and f.upper() in parts for f in ("major", "minor", "patch")}
    flags["tag_num"] = d.chance(1, 3) and "NUM" in parts
    flags["pin_date"] = d.chance(1, 5)
    flags["pin_increments"] = d.chance(1, 4)
    flags["tag"] = d.choice(TAGVALS) if d.chance(1, 3) and parts & {"TAG", "PYTAG"} else None
    old_date = grammar.date_of(state)
    try:
        new_date = old_date + dt.timedelta(days=d.choice(OFFSETS))
    except OverflowError:
        new_date = old_date
    if parts & {"YY", "0Y", "GG", "0G"} and not (2001 <= new_date.year <= 2099 and 2001 <= ref_cal(new_date)["year_g"] <= 2099):
        new_date = old_date
    if not 1000 <= new_date.year <= 9999:
        new_date = old_date
    return {"ast": nodes, "state": state, "old": text, "flags": flags, "date": new_date.isoformat()}


def _nt(ast):
    return len(list(parts_of(ast))) >= 2 or any(n[0] == "opt" for n in ast)


def accept_and_compare(ast, pattern, text, sigbase):
    """text was rendered by bumpver: must be accepted, re-render identically, and bumpver's reading must agree
    with the reference recogniser on every part.  -> None or viol-tuple"""
    parts = list(parts_of(ast))
    try:
        back = v2version.parse_version_info(text, pattern)
    except bv_version.PatternError:
        culprit = None
        return ("render-not-recognised", dict(sigbase), {"pattern": pattern, "text": text})
    except Exception as ex:
        return ("recogniser-raises", dict(sigbase, exc=type(ex).__name__), {"pattern": pattern, "text": text, "exc": repr(ex)})
    again = v2version.format_version(back, pattern)
    if again != text:
        return ("rerender-differs", dict(sigbase), {"pattern": pattern, "text": text, "again": again})
    ps = ref_parse_all(ast, text)
    if len(ps) != 1:
        return ("text-not-uniquely-readable", dict(sigbase), {"pattern": pattern, "text": text, "ref_parses": ps})
    ref = with_defaults(ast, ps[0])
    for p in parts:
        f = PART_FIELD[p]
        a, b = getattr(back, f), ref[f]
        if p == "BLD":
            a, b = int(a), int(b)
        if a != b:
            return ("reader-disagrees-with-reference", dict(sigbase, part=p), {"pattern": pattern, "text": text, "field": f, "bumpver": a, "ref": b})
    return None


def week53(state_like, parts):
    return any(p in parts and state_like.get(PART_FIELD[p]) == 53 for p in ("WW", "0W", "UU", "0U"))


def check_b(case):
    if "discard" in case:
        return discard(case["discard"])
    ast, state, flags = case["ast"], case["state"], case["flags"]
    pattern = pattern_str(ast)
    parts = list(parts_of(ast))
    fields = sorted({PART_FIELD[p] for p in parts})
    nt = _nt(ast)
    classes = []
    # (i) the state rendered directly
    vinfo = vinfo_from_state(state)
    bad = roundtrip_text(vinfo, pattern, fields)
    if bad:
        sig = {"via": "state"}
        if bad[0] == "render-not-recognised" and week53(state, parts):
            sig.update(part=[p for p in ("WW", "0W", "UU", "0U") if p in parts][0], value=53)
        return viol(bad[0], sig, dict(bad[1], pattern=pattern, state=state), nt=nt)
    text = v2version.format_version(vinfo, pattern)
    if text != case["old"]:
        return viol("render-differs-from-reference", {"via": "state"}, {"pattern": pattern, "bumpver": text, "ref": case["old"]}, nt=nt)
    v = accept_and_compare(ast, pattern, text, {"via": "state"})
    if v:
        return viol(v[0], v[1], v[2], nt=nt)
    # (ii) what incr returns, before the CLI's gate can hide a bad rendering
    date = dt.date.fromisoformat(case["date"])
    bv_version.TODAY = date
    logging.disable(logging.CRITICAL)
    try:
        N = v2version.incr(case["old"], pattern, major=flags["major"], minor=flags["minor"], patch=flags["patch"],
                           tag=flags["tag"], tag_num=flags["tag_num"], pin_increments=flags["pin_increments"],
                           pin_date=flags["pin_date"], maybe_date=date)
    except OverflowError:
        return ok(nt=nt, classes=("build-id-at-documented-maximum",))
    except Exception as ex:
        return viol("incr-raises", {"exc": type(ex).__name__}, {"pattern": pattern, "old": case["old"], "flags": flags, "exc": repr(ex)}, nt=nt)
    finally:
        logging.disable(logging.NOTSET)
    if N is None:
        return ok(nt=False, classes=("incr-declined",))
    classes.append("incr-bumped")
    sig = {"via": "incr"}
    E = None
    try:
        E = bumpref.ref_bump(ast, state, major=flags["major"], minor=flags["minor"], patch=flags["patch"], tag=flags["tag"],
                             tag_num=flags["tag_num"], pin_date=flags["pin_date"], pin_increments=flags["pin_increments"], date=date)
    except bumpref.Overflow:
        pass
    if E is not None and week53(E, parts):
        sig.update(part=[p for p in ("WW", "0W", "UU", "0U") if p in parts][0], value=53)
    v = accept_and_compare(ast, pattern, N, sig)
    if v:
        return viol(v[0], v[1], dict(v[2], old=case["old"], flags=flags, date=case["date"]), nt=nt, classes=tuple(classes))
    return ok(nt=nt, classes=tuple(classes))


# ------------------------------------------------------------------ C: CLI chain


def always_bump_args(ast, date):
    parts = list(parts_of(ast))
    for p, f in (("PATCH", "--patch"), ("MINOR", "--minor"), ("MAJOR", "--major")):
        if p in parts:
            return [f, "--date", date.isoformat()]
    return ["--date", date.isoformat()]


def check_c(case):
    if "discard" in case:
        return discard(case["discard"])
    ast, flags = case["ast"], dict(case["flags"])
    pattern = pattern_str(ast)
    parts = list(parts_of(ast))
    date = dt.date.fromisoformat(case["date"])
    nt = _nt(ast)
    if not flags["pin_date"]:
        flags["date"] = case["date"]
    r1 = bv.run(["test", case["old"], pattern] + bv.flag_args(flags), today=date)
    if r1.crashed and "max lexical version reached" in (r1.exc or ""):
        return ok(nt=False, classes=("build-id-at-documented-maximum",))
    if r1.crashed:
        return viol("test-crashes", {}, {"args": ["test", case["old"], pattern] + bv.flag_args(flags), "res": r1.summary()}, nt=nt)
    if r1.exit != 0:
        return ok(nt=False, classes=("declined",))
    N = r1.new_version
    later = date + dt.timedelta(days=400) if date.year < 9998 and not (set(parts) & {"YY", "0Y", "GG", "0G"} and date.year >= 2098) else date
    r2 = bv.run(["test", N, pattern] + always_bump_args(ast, later), today=later)
    if r2.crashed and "max lexical version reached" in (r2.exc or ""):
        return ok(nt=False, classes=("build-id-at-documented-maximum",))
    if r2.crashed or f"Invalid version '{N}'" in r2.err or "Invalid version string" in r2.err or "Incomplete match" in r2.err:
        return viol("announced-version-not-a-legal-current-version", {"via": "test-chain"},
                    {"first": ["test", case["old"], pattern] + bv.flag_args(flags), "announced": N, "second": r2.summary()}, nt=nt)
    # update followed by show
    tmp = tempfile.mkdtemp(prefix="c02_")
    try:
        with open(os.path.join(tmp, "bumpver.toml"), "w", encoding="utf-8") as f:
            f.write('[bumpver]\ncurrent_version = "%s"\nversion_pattern = "%s"\n\n[bumpver.file_patterns]\n'
                    '"bumpver.toml" = [\'current_version = "{version}"\']\n' % (case["old"], pattern))
        r3 = bv.run(["update", "--no-fetch"] + bv.flag_args(flags), cwd=tmp, today=date)
        if r3.exit != 0 or r3.crashed:
            return viol("update-disagrees-with-test", {}, {"pattern": pattern, "old": case["old"], "flags": flags, "test": N, "update": r3.summary()}, nt=nt)
        r4 = bv.run(["show", "--no-fetch"], cwd=tmp, today=date)
        cur = r4.field("Current Version", "out")
        if r4.exit != 0 or cur != r3.new_version or cur != N:
            return viol("announced-version-not-a-legal-current-version", {"via": "update-show"},
                        {"pattern": pattern, "old": case["old"], "flags": flags, "test": N, "update": r3.new_version, "show": r4.summary()}, nt=nt)
    finally:
        shutil.rmtree(tmp, ignore_errors=True)
    return ok(nt=nt, classes=("chain-ok",))


def selftest():
    err = selftest_calendar()
    if err:
        raise HarnessError(err)


PARTS = [
    Part("A-date-sweep", check=check_year, domain=years, exhaustive=lambda tier: True),
    Part("B-states-and-incr", check=check_b, strategy=lambda: dp.cases(build_b, size=192), n={"quick": 64000, "thorough": 1200000}),
    fuzz.fuzz_part("B-coverage-guided", build_b, check_b, size=192, runs={"quick": 12000, "thorough": 400000}),
    Part("C-cli-chain", check=check_c, strategy=lambda: dp.cases(build_b, size=192), n={"quick": 4000, "thorough": 80000}),
]

MANIFEST = {
    "text": "Exhaustive round trip of every calendar date in range through every calendar part and 22 date patterns (year first, year last, glued, after a literal digit), "
            "plus generated (pattern, reachable state, bump) cases whose rendering - taken before the CLI gate - must "
            "be accepted, read back part-wise (bumpver's reader vs an independent recogniser) and re-render "
            "byte-identically; plus a CLI chain (test->test, update->show).",
    "note": "The date sweep is complete for the tier's year range (thorough: 1000-9999); random patterns are limited "
            "to grammar G. Week 53 of WW/0W/UU/0U is a recorded finding (known_findings.json F1).",
    "technique": "exhaustive enumeration (dates) + property-based testing (Hypothesis) with round-trip and reference-recogniser oracles; plus coverage-guided fuzzing (atheris/libFuzzer) of the same byte decoder and oracle",
}
