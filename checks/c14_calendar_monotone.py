"""C14 - calendar versions never run backwards as the date advances."""
import os
import shutil
import logging
import tempfile
import datetime as dt

from harness.core import Part, ok, viol, discard, HarnessError
from harness import fuzz, dp, bv, grammar, bumpref, pep440ref
from harness.refmodel import PART_FIELD, CAL_FIELDS, parts_of, pattern_str, ref_render, ref_parse_all, with_defaults, ref_cal

from bumpver import version as bv_version
from bumpver import v2version

from checks.c02_render_roundtrip import vinfo_from_state

ID = "C14"
LEVEL = "exploration"
RULE = ("A (exhaustive, both tiers): 51 coherent patterns ({YYYY,YY,0Y} x {none,Q,MM,0M,MM.DD,0M.0D,MM.0D,0M.DD,JJJ,00J,"
        "WW,0W,UU,0U} and {GGGG,GG,0G} x {none,VV,0V}) x all 36,158 consecutive day pairs 2001-01-01..2099-12-31: "
        "bumpver's rendering for day d+1 must not be lower (packaging.Version) than for day d. Non-trivial pairs "
        "cross a week, month, quarter or year boundary. B (Hypothesis): coherent pattern + counter part, random old "
        "date / new date incl. new < old, through v2version.incr and a `bumpver test` sample: calendar parts read back "
        "from the result are >= the old ones, equal to them when the old version lies in the future, else equal to "
        "the new date's. C (enumerated): all 18 year/week pairings that must be rejected x 3 separators: `bumpver "
        "test` and the config loader refuse them; each is shown non-monotone on a concrete day pair.")
ASSUME = ["packaging.version as PEP 440 order", "arithmetic calendar reference (harness/refmodel.ref_cal)"]

YEARS = ["YYYY", "YY", "0Y"]
SUBS = ["", "Q", "MM", "0M", "MM.DD", "0M.0D", "MM.0D", "0M.DD", "JJJ", "00J", "WW", "0W", "UU", "0U"]
ISO_Y = ["GGGG", "GG", "0G"]
ISO_W = ["", "VV", "0V"]
COHERENT = [y + ("." + s if s else "") for y in YEARS for s in SUBS] + [y + ("." + s if s else "") for y in ISO_Y for s in ISO_W]
REJECTED = [(y, w) for y in YEARS for w in ("VV", "0V")] + [(y, w) for y in ISO_Y for w in ("WW", "0W", "UU", "0U")]

_vcache = {}


def vkey(text):
    k = _vcache.get(text)
    if k is None:
        if len(_vcache) > 200000:
            _vcache.clear()
        k = _vcache[text] = pep440ref.key(text)
    return k


def render_for(date, pattern):
    state = grammar.state_from(date)
    return v2version.format_version(vinfo_from_state(dict(state, **v2version.cal_info(date)._asdict())), pattern)


def check_pairs(case):
    pattern, y = case["pattern"], case["year"]
    d = dt.date(y, 1, 1)
    last = dt.date(y, 12, 31)
    n = nt_n = 0
    out = ok()
    prev = render_for(d, pattern)
    while d <= last and d < dt.date(2099, 12, 31):
        nxt_d = d + dt.timedelta(days=1)
        cur = render_for(nxt_d, pattern)
        n += 1
        if nxt_d.weekday() in (0, 6) or nxt_d.day == 1:
            nt_n += 1
        if cur != prev and vkey(cur) < vkey(prev):
            if not out.more:
                out.more.append(("later-date-renders-lower-version", {"pattern": pattern},
                                 {"pattern": pattern, "day": d.isoformat(), "version": prev, "next_day": nxt_d.isoformat(), "next_version": cur}))
        prev = cur
        d = nxt_d
    out.n, out.nt_n, out.nt = n, nt_n, True
    return out


def pair_domain(tier):
    return [{"pattern": p, "year": y} for p in COHERENT for y in range(2001, 2100)]


# ------------------------------------------------------------------ B: bump level

COUNTERS = [[["lit", "."], ["part", "INC0"]], [["lit", "."], ["part", "PATCH"]], [["lit", "."], ["part", "BUILD"]],
            [["opt", [["lit", "."], ["part", "INC0"]]]], [["lit", "-"], ["part", "INC1"]], [["opt", [["lit", "-"], ["part", "TAG"]]]]]
SEPS = [".", ".", "-", "", "x"]


def build_b(d):
    pat = d.choice(COHERENT)
    names = pat.split(".")
    nodes = []
    if d.bool():
        nodes.append(["lit", "v"])
    for i, nm in enumerate(names):
        if i:
            sep = d.choice(SEPS)
            prev = names[i - 1]
            if sep == "" and (prev not in grammar.FIXED_WIDTH or grammar._straddles(prev, nm)):
                sep = "."
            if sep:
                nodes.append(["lit", sep])
        nodes.append(["part", nm])
    nodes += d.choice(COUNTERS)
    lo, hi = dt.date(2001, 1, 8).toordinal(), dt.date(2099, 12, 20).toordinal()
    old = dt.date.fromordinal(d.int(lo, hi))
    k = d.int(0, 9)
    if k < 6:
        new = old + dt.timedelta(days=d.choice([0, 1, 1, 6, 7, 30, 31, 92, 365, 366, -1, -1, -7, -31, -366]))
    else:
        new = dt.date.fromordinal(d.int(lo, hi))
    if d.chance(1, 6):
        new = dt.date(old.year, 1, d.int(1, 7))  # week 0 / ISO week of the previous year, earlier than the current version
    new = min(max(new, dt.date(2001, 1, 1)), dt.date(2099, 12, 20))
    state = grammar.state_from(old, inc0=d.choice([0, 1, 9]), inc1=d.choice([1, 2, 10]), patch=d.choice([0, 3]),
                               bid=d.choice(["1001", "1999", "0100"]), tag=d.choice(["final", "beta"]))
    return {"ast": nodes, "state": state, "old": ref_render(nodes, state), "date": new.isoformat(),
            "patch": any(p == "PATCH" for p in parts_of(nodes)), "cli": d.chance(1, 10),
            # --pin-date: the calendar parts must stay exactly as they are
            "pin_date": d.chance(1, 6)}


def cal_of(ast, st):
    return [st[f] for f in CAL_FIELDS if f in {PART_FIELD[p] for p in parts_of(ast)}]


def check_b(case):
    ast, state = case["ast"], case["state"]
    if not grammar.unambiguous(ast, state, case["old"]):
        return discard("ambiguous")
    pattern = pattern_str(ast)
    date = dt.date.fromisoformat(case["date"])
    old_date = grammar.date_of(state)
    classes = ["new<old" if date < old_date else "new>old" if date > old_date else "same-day"]
    if case["cli"]:
        args = ["test", case["old"], pattern, "--date", case["date"]] + (["--patch"] if case["patch"] else []) + (["--pin-date"] if case.get("pin_date") else [])
        r = bv.run(args, today=date)
        if r.crashed:
            return viol("test-crashes", {}, {"args": args, "res": r.summary()})
        N = r.new_version if r.exit == 0 else None
        classes.append("via-cli")
    else:
        bv_version.TODAY = date
        logging.disable(logging.CRITICAL)
        try:
            N = v2version.incr(case["old"], pattern, patch=case["patch"], maybe_date=date, pin_date=bool(case.get("pin_date")))
        except Exception as ex:
            return viol("incr-raises", {"exc": type(ex).__name__}, {"pattern": pattern, "old": case["old"], "date": case["date"], "exc": repr(ex)})
        finally:
            logging.disable(logging.NOTSET)
    if N is None:
        return ok(classes=tuple(classes + ["declined"]))
    old_cal = cal_of(ast, state)
    new_cal = cal_of(ast, ref_cal(date))
    ps = ref_parse_all(ast, N)
    if len(ps) != 1:
        return viol("result-not-readable", {}, {"pattern": pattern, "old": case["old"], "date": case["date"], "new": N, "parses": ps})
    got = cal_of(ast, with_defaults(ast, ps[0]))
    detail = {"pattern": pattern, "old": case["old"], "date": case["date"], "new": N, "old_cal": old_cal, "date_cal": new_cal, "new_cal": got}
    if got < old_cal:
        return viol("bump-moved-calendar-parts-backwards", {}, detail, classes=tuple(classes))
    if case.get("pin_date"):
        classes.append("pin-date")
        if got != old_cal:
            return viol("pinned-calendar-parts-changed", {}, detail, classes=tuple(classes))
        return ok(nt=date != old_date, classes=tuple(classes))
    in_future = old_cal > new_cal
    if in_future:
        classes.append("old-in-future")
        if got != old_cal:
            return viol("future-version-calendar-parts-changed", {}, detail, classes=tuple(classes))
    elif got != new_cal:
        return viol("calendar-parts-not-from-date", {}, detail, classes=tuple(classes))
    return ok(nt=date != old_date, classes=tuple(classes))


# ------------------------------------------------------------------ C: rejected pairings


def rejected_domain(tier):
    out = [{"year": y, "week": w, "sep": s} for (y, w) in REJECTED for s in (".", "", "w")]
    # the same incoherent leading pair with the OTHER kind of year mentioned further right: still not monotone
    for (y, w) in REJECTED:
        for extra in (("GG", "0G", "GGGG") if y in ("YYYY", "YY", "0Y") else ("YY", "0Y", "YYYY")):
            out.append({"year": y, "week": w, "sep": ".", "extra": extra})
    return out


def nonmonotone_witness(ast):
    for y in range(2001, 2031):
        for base in (dt.date(y, 12, 25), ):
            for i in range(14):
                d = base + dt.timedelta(days=i)
                # reference rendering: this witness is about the calendar, not about bumpver
                a = ref_render(ast, grammar.state_from(d))
                b = ref_render(ast, grammar.state_from(d + dt.timedelta(days=1)))
                if vkey(b) < vkey(a):
                    return d.isoformat(), a, b
    return None


def check_rejected(case):
    y, w, sep = case["year"], case["week"], case["sep"]
    if sep == "" and (y not in grammar.FIXED_WIDTH or grammar._straddles(y, w)):
        return discard("glue-not-expressible")
    extra = case.get("extra")
    pattern = y + sep + w + ("." + extra if extra else "") + ".PATCH"
    date = dt.date(2021, 6, 15)
    ast = [["part", y]] + ([["lit", sep]] if sep else []) + [["part", w]] + ([["lit", "."], ["part", extra]] if extra else []) + [["lit", "."], ["part", "PATCH"]]
    state = grammar.state_from(date, patch=1)
    old = ref_render(ast, state)
    wit = nonmonotone_witness(ast[:-2])
    if wit is None and extra:
        return discard("extended-pattern-is-monotone")
    if wit is None:
        raise HarnessError(f"rejected pairing {pattern} is monotone 2001-2030: the rejection oracle would be vacuous")
    args = ["test", old, pattern, "--patch", "--date", "2021-07-15"]
    r = bv.run(args, today=date)
    if r.exit == 0:
        return viol("incoherent-year-week-pairing-accepted-by-test", {"pattern": pattern}, {"args": args, "res": r.summary(), "non_monotone_on": wit})
    tmp = tempfile.mkdtemp(prefix="c14_")
    try:
        with open(os.path.join(tmp, "bumpver.toml"), "w") as f:
            f.write('[bumpver]\ncurrent_version = "%s"\nversion_pattern = "%s"\n\n[bumpver.file_patterns]\n"bumpver.toml" = [\'current_version = "{version}"\']\n' % (old, pattern))
        r2 = bv.run(["show", "--no-fetch"], cwd=tmp, today=date)
        r3 = bv.run(["update", "--no-fetch", "--patch", "--date", "2021-07-15"], cwd=tmp, today=date)
        if r2.exit == 0 or r3.exit == 0:
            return viol("incoherent-year-week-pairing-accepted-by-config", {"pattern": pattern}, {"pattern": pattern, "show": r2.summary(), "update": r3.summary(), "non_monotone_on": wit})
    finally:
        shutil.rmtree(tmp, ignore_errors=True)
    return ok(nt=True, classes=("rejected", "both-year-kinds-present") if extra else ("rejected",))


def selftest():
    # the order oracle itself: a coherent pattern the README documents and a decreasing pair it warns about
    if nonmonotone_witness([["part", "YYYY"], ["lit", "."], ["part", "VV"]]) is None:
        raise HarnessError("YYYY.VV should be non-monotone around New Year")
    if len(COHERENT) != 51 or len(REJECTED) != 18:
        raise HarnessError("pattern tables")


PARTS = [
    Part("A-day-pairs", check=check_pairs, domain=pair_domain, exhaustive=lambda tier: True),
    Part("B-bump-level", check=check_b, strategy=lambda: dp.cases(build_b, size=64), n={"quick": 16000, "thorough": 480000}),
    fuzz.fuzz_part("B-coverage-guided", build_b, check_b, size=64, runs={"quick": 6000, "thorough": 160000}),
    Part("C-rejected-pairings", check=check_rejected, domain=rejected_domain, exhaustive=lambda tier: True, max_discard=0.5),
]

MANIFEST = {
    "text": "Exhaustive: every coherent year x sub-part pattern over every consecutive day pair 2001..2099 (1.84 million "
            "renderings compared with packaging.Version) in both tiers; generated bump-level cases incl. dates earlier "
            "than the current version; enumerated rejected pairings, each demonstrated non-monotone.",
    "note": "Rendering is taken from bumpver's cal_info + format_version; dates outside 2001..2099 are not covered "
            "(as in the property); bump level is sampled, not exhaustive.",
    "technique": "exhaustive enumeration of a finite domain + property-based testing (Hypothesis) with a monotonicity (metamorphic) oracle; plus coverage-guided fuzzing (atheris/libFuzzer) of the same byte decoder and oracle",
}
