"""C16 - version comparison is a total preorder that agrees with PEP 440."""
import itertools

from hypothesis import strategies as st

from harness.core import Part, ok, viol, HarnessError
from harness import pep440ref, dp, fuzz

from bumpver import version as bv_version
from bumpver import setuptools_v65_version as bv_v65

ID = "C16"
LEVEL = "exploration"
RULE = ("Hypothesis (one binary draw decoded by a grammar) generates lists of 2..6 version strings: PEP 440 strings from a grammar with every "
        "alternate spelling (epoch, v prefix, case, -_. separators, alpha/beta/c/pre/preview/rev/r, implicit "
        "numbers, implicit post -N, leading zeros, local versions, surrounding blanks), re-spellings and "
        "one-component neighbours of earlier items, legacy strings (bumpver-style v2017q1.54321, vYYYYwWW, "
        "arbitrary text) and one-edit mutations. All pairs and triples of a list are checked. A case is "
        "non-trivial when two items differ textually and at least one item is legacy or spelled "
        "non-canonically; distinct = distinct JSON of the list.")
ASSUME = ["packaging.version 26.x implements PEP 440 (reference for validity, canonical form and order)",
          "the order among two non-PEP 440 strings is only required to be a total preorder (laws, no differential)"]

NUMS = ["0", "1", "2", "9", "10", "00", "01", "010", "2021", "1001"]
SEPS = ["", "", ".", "-", "_"]
PRE_L = ["a", "b", "c", "rc", "alpha", "beta", "pre", "preview"]
POST_L = ["post", "rev", "r"]
LOCALS = ["abc", "1", "01", "ubuntu", "2", "a1", "0", "b"]


def num(d):
    return d.choice(NUMS) if d.chance(3, 4) else str(d.int(0, 10 ** 7))


def opt_num(d):
    return None if d.chance(1, 3) else num(d)


def gen_pre(d):
    return None if d.bool() else [d.choice(PRE_L), opt_num(d)]


def gen_post(d):
    return None if d.chance(2, 3) else [None if d.chance(1, 4) else d.choice(POST_L), opt_num(d)]


def gen_dev(d):
    return None if d.chance(2, 3) else ["dev", opt_num(d)]


def gen_local(d):
    return None if d.chance(3, 4) else [d.choice(LOCALS) for _ in range(d.int(1, 3))]


def pep440_parts(d):
    return {
        "epoch": None if d.chance(2, 3) else d.choice(["0", "1", "2", "01"]),
        "release": [num(d) for _ in range(d.int(1, 4))],
        "pre": gen_pre(d), "post": gen_post(d), "dev": gen_dev(d), "local": gen_local(d),
    }


def spell(d, p):
    """Render a parts dict with randomly chosen alternate spellings."""
    s = d.choice(["", "", "v", "V"])
    if p["epoch"] is not None:
        s += p["epoch"] + "!"
    s += ".".join(p["release"])
    if p["pre"] is not None:
        letter, n = p["pre"]
        s += d.choice(SEPS) + letter + (d.choice(SEPS) + n if n is not None else "")
    if p["post"] is not None:
        letter, n = p["post"]
        if letter is None:
            if n is not None:
                s += "-" + n  # implicit post release
        else:
            s += d.choice(SEPS) + letter + (d.choice(SEPS) + n if n is not None else "")
    if p["dev"] is not None:
        letter, n = p["dev"]
        s += d.choice(SEPS) + letter + (d.choice(SEPS) + n if n is not None else "")
    if p["local"] is not None:
        s += "+" + d.choice([".", "-", "_"]).join(p["local"])
    if d.chance(1, 6):
        s = "".join(c.upper() if d.bool() else c for c in s)
    if d.chance(1, 10):
        s = d.choice(["", " ", "\t", "\n"]) + s + d.choice(["", " ", "\n"])
    return s


_PRE_EQUIV = {"a": ["a", "alpha"], "alpha": ["a", "alpha"], "b": ["b", "beta"], "beta": ["b", "beta"],
              "c": ["c", "rc", "pre", "preview"], "rc": ["c", "rc", "pre", "preview"],
              "pre": ["c", "rc", "pre", "preview"], "preview": ["c", "rc", "pre", "preview"]}


def neighbour(d, p):
    """Same version re-spelled, or one component nudged."""
    q = dict(p)
    how = d.choice(["respell", "respell", "trail0", "bump", "pre", "post", "dev", "epoch", "local"])
    if how == "respell":
        q["release"] = [d.choice([x, x.lstrip("0") or "0", "0" + x]) for x in p["release"]]
        if p["pre"] is not None:
            q["pre"] = [d.choice(_PRE_EQUIV[p["pre"][0]]), p["pre"][1]]
        if p["post"] is not None and p["post"][0] is not None:
            q["post"] = [d.choice(POST_L), p["post"][1]]
    elif how == "trail0":
        q["release"] = list(p["release"]) + ["0"] * d.int(1, 2)
    elif how == "bump":
        rel = list(p["release"])
        i = d.int(0, len(rel) - 1)
        rel[i] = str(max(0, int(rel[i]) + d.choice([1, -1, 1])))
        q["release"] = rel
    elif how == "pre":
        q["pre"] = gen_pre(d)
    elif how == "post":
        q["post"] = gen_post(d)
    elif how == "dev":
        q["dev"] = gen_dev(d)
    elif how == "epoch":
        q["epoch"] = d.choice([None, "0", "1"])
    else:
        q["local"] = gen_local(d)
    return q


LEGACY_FIXED = ["v2017q1.54321", "2020w05", "v2021w53.1001-beta", "1.0-foo", "1.2.3.final", "1..2", "",
                "v", "1.0+", "1.0-", "final", "2021.w10", "v2020d366", "1.0~rc1", "1_2_3", "1.0.x",
                "v1.2.3-rc.1.2", "abc", "1.0-final", "1.0.0-0", "2020.10/3"]
LEGACY_ALPHA = "0123456789abcdefilnoprstvw.-_+!~ "


def legacy(d):
    k = d.int(0, 4)
    if k == 0:
        return d.choice(LEGACY_FIXED)
    if k == 1:
        return d.text(LEGACY_ALPHA, 0, 12)
    if k == 2:
        return "".join(chr(d.codepoint()) for _ in range(d.int(0, 6)))
    if k == 3:
        return "v%dw%02d.%d%s" % (d.int(2000, 2030), d.int(0, 53), d.int(1000, 1100),
                                  d.choice(["", "-alpha", "-beta", "-rc", "-final"]))
    return "v%dq%d.%d" % (d.int(2000, 2030), d.int(1, 4), d.int(1, 99999))


def one_edit(d, s):
    if not s:
        return d.choice(["x", "1", "."])
    i = d.int(0, len(s) - 1)
    how = d.choice(["del", "ins", "sub", "dup"])
    c = d.choice("0123456789.-_+!vabrcpdeost ")
    if how == "del":
        return s[:i] + s[i + 1:]
    if how == "ins":
        return s[:i] + c + s[i:]
    if how == "sub":
        return s[:i] + c + s[i + 1:]
    return s[:i] + s[i] + s[i:]


def build(d):
    n = d.int(2, 6)
    items, parts = [], []
    for _ in range(n):
        kind = d.choice(["fresh", "fresh", "nb", "nb", "nb", "legacy", "edit"])
        if kind == "nb" and parts:
            p = neighbour(d, d.choice(parts))
            parts.append(p)
            items.append(spell(d, p))
        elif kind == "legacy":
            items.append(legacy(d))
        elif kind == "edit" and items:
            items.append(one_edit(d, d.choice(items)))
        else:
            p = pep440_parts(d)
            parts.append(p)
            items.append(spell(d, p))
    return {"items": items}


def version_list():
    return dp.cases(build, size=320)


def _sign(x):
    return (x > 0) - (x < 0)


def _check(case):
    items = case["items"]
    P = []
    R = []
    nt = False
    classes = set()
    for s in items:
        try:
            p = bv_version.parse_version(s)
        except Exception as ex:
            return viol("parse-raises", {"exc": type(ex).__name__}, {"s": s, "exc": repr(ex)})
        r = pep440ref.pep440(s)
        is_pep = isinstance(p, bv_v65.Version)
        if is_pep != (r is not None):
            return viol("validity-differs", {"bumpver_valid": is_pep}, {"s": s, "bumpver": type(p).__name__, "ref_valid": r is not None})
        if r is not None:
            if str(p) != str(r):
                return viol("canonical-form-differs", {}, {"s": s, "bumpver": str(p), "ref": str(r)})
            try:
                tp = bv_version.to_pep440(s)
            except Exception as ex:
                return viol("to_pep440-raises", {}, {"s": s, "exc": repr(ex)})
            if tp != str(r):
                return viol("to_pep440-differs", {}, {"s": s, "bumpver": tp, "ref": str(r)})
            classes.add("pep440")
            if str(r) != s:
                classes.add("alt-spelling")
        else:
            classes.add("legacy")
        P.append(p)
        R.append(r)
    alt = "alt-spelling" in classes or "legacy" in classes
    n = len(items)
    for i in range(n):
        a = P[i]
        if not (a == a and a <= a and a >= a and not a < a and not a > a and not a != a):
            return viol("not-reflexive", {}, {"s": items[i]})
    for i, j in itertools.combinations(range(n), 2):
        a, b = P[i], P[j]
        lt, le, eq, ge, gt, ne = a < b, a <= b, a == b, a >= b, a > b, a != b
        rlt, rgt = b < a, b > a
        if items[i] != items[j] and alt:
            nt = True
        if (lt + eq + gt) != 1:
            return viol("not-total", {}, {"a": items[i], "b": items[j], "lt": lt, "eq": eq, "gt": gt})
        if le != (lt or eq) or ge != (gt or eq) or ne == eq or rlt != gt or rgt != lt or (b == a) != eq:
            return viol("operators-inconsistent", {}, {"a": items[i], "b": items[j],
                                                       "ops": [lt, le, eq, ge, gt, ne, rlt, rgt]})
        if eq != (a._key == b._key) or (eq and hash(a) != hash(b)):
            return viol("equality-not-key-equality", {}, {"a": items[i], "b": items[j]})
        ra, rb = R[i], R[j]
        if ra is not None and rb is not None:
            want = _sign((ra > rb) - (ra < rb))
            classes.add("pair:pep-pep")
            if want == 0 and items[i] != items[j]:
                classes.add("pair:equal-different-text")
        elif ra is None and rb is None:
            classes.add("pair:legacy-legacy")
            continue  # laws only
        else:
            want = -1 if ra is None else 1
            classes.add("pair:legacy-pep")
        have = gt - lt
        if have != want:
            bucket = "order-differs-from-pep440" if (ra is not None and rb is not None) else "legacy-not-below-pep440"
            return viol(bucket, {}, {"a": items[i], "b": items[j], "bumpver_sign": have, "ref_sign": want})
    for i, j, k in itertools.permutations(range(n), 3):
        if P[i] <= P[j] and P[j] <= P[k] and not P[i] <= P[k]:
            return viol("not-transitive", {}, {"a": items[i], "b": items[j], "c": items[k]})
    # sorting with parse_version as key agrees with the reference up to ties
    try:
        srt = sorted(range(n), key=lambda t: P[t])
    except Exception as ex:
        return viol("sort-raises", {}, {"items": items, "exc": repr(ex)})
    seen_pep = False
    prev = None
    for t in srt:
        if R[t] is None:
            if seen_pep:
                return viol("legacy-not-below-pep440", {"via": "sort"}, {"items": items, "sorted": [items[x] for x in srt]})
        else:
            seen_pep = True
            if prev is not None and R[t] < prev:
                return viol("order-differs-from-pep440", {"via": "sort"}, {"items": items, "sorted": [items[x] for x in srt]})
            prev = R[t]
    return ok(nt=nt, classes=tuple(sorted(classes)))


def check(case):
    try:
        return _check(case)
    except Exception as ex:  # comparisons and hashing of parsed versions must never raise
        import traceback
        tb = traceback.extract_tb(ex.__traceback__)
        if not any("bumpver" in f.filename and "/checks/" not in f.filename and "/harness/" not in f.filename for f in tb):
            raise
        return viol("comparison-raises", {"exc": type(ex).__name__}, {"items": case["items"], "exc": repr(ex)})


def selftest():
    # reference sanity: a few facts straight from PEP 440
    k = pep440ref.key
    chain = ["foo", "1.0.dev0", "1.0a0.dev1", "1.0a0", "1.0b2", "1.0rc1", "1.0", "1.0+abc", "1.0+5", "1.0.post0.dev1",
             "1.0.post0", "1.1", "1!0.1"]
    for a, b in zip(chain, chain[1:]):
        if not k(a) < k(b):
            raise HarnessError(f"reference order broken: {a} !< {b}")
    if k("v1.0") != k("1.0.0") or k("1.0-1") != k("1.0.post1") or k("1.0alpha") != k("1.0a0"):
        raise HarnessError("reference equalities broken")


PARTS = [
    Part("lists", check=check, strategy=version_list, n={"quick": 160000, "thorough": 3200000}),
    fuzz.fuzz_part("lists-coverage-guided", build, check, size=320, runs={"quick": 32000, "thorough": 1600000}),
]

MANIFEST = {
    "text": "Generated-input search: 1.6e5 (quick) / 3.2e6 (thorough) lists of version strings from a PEP 440 "
            "spelling grammar plus legacy strings and one-edit mutations; every pair and triple is checked "
            "against the order laws and differentially against packaging.version. Finds any realistic "
            "breakage of the comparison key within seconds; cannot prove absence.",
    "note": "Trusts packaging.version 26.x as the PEP 440 reference. Legacy-vs-legacy order is only checked "
            "for the preorder laws, as the property does not prescribe it.",
    "technique": "property-based testing (Hypothesis), differential oracle vs packaging.version + order laws; plus coverage-guided fuzzing (atheris/libFuzzer) of the same byte decoder and oracle",
}
