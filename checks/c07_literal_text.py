"""C07 - literal pattern text matches only itself."""
import os
import re
import shutil
import tempfile
import itertools

try:
    import re._parser as sre_parse
    import re._constants as sre_c
except ImportError:  # pragma: no cover (python < 3.11)
    import sre_parse
    import sre_constants as sre_c

from harness.core import Part, ok, viol, discard, HarnessError
from harness import fuzz, dp, bv, projgen
from harness.refmodel import ref_search, ref_render

from bumpver import v2patterns, v1patterns
from bumpver import parse as bv_parse

ID = "C07"
LEVEL = "exploration"
SIGMA = [chr(c) for c in range(0x20, 0x7F) if not chr(c).isupper()]
RULE = ("Alphabet: the 69 printable ASCII characters that are not upper-case letters; '[' / ']' are written \\[ / \\]; "
        "a backslash directly before a bracket and the placeholders {version}/{pep440_version} are not generated. "
        "A (exhaustive, both tiers): all 333,339 strings of length 1..3 compiled as a search pattern (v2 compiler). "
        "B (Hypothesis): strings up to length 40 biased towards regex metacharacters, alone and wrapped around real parts "
        "(lit PART lit [lit PART]), v2 and legacy compiler. C: `bumpver grep` and `update` on a generated file with such "
        "literals as delimiters. Oracle: (1) the compiled regex parses (re._parser) to LITERAL nodes spelling exactly the "
        "text, AT nodes only for a leading ^ / trailing $; (2) on probe lines (the text, embedded in noise, every "
        "single-character deletion/substitution, prefixes, suffixes, class probes for backslash pairs, unrelated lines) "
        "search succeeds iff the reference matcher finds the text, with the same span. Non-trivial: the text contains a "
        "character that is special in Python's re syntax.")
ASSUME = ["a leading ^ and a trailing $ are anchors, everything else is literal (as the property states)",
          "literals contain no upper-case letter, so no part name can occur"]

SPECIAL = set(".^$*+?{}[]\\|()")
NOISE = ["", "x", " ", "abc ", "12", "="]


def escape_brackets(text):
    return text.replace("[", "\\[").replace("]", "\\]")


def expressible(text):
    """the text can be written as a pattern: no backslash directly before a bracket (\\\\[ would read as an escaped
    bracket) and no trailing backslash before an appended bracket - handled by construction"""
    for i, c in enumerate(text[:-1]):
        if c == "\\" and text[i + 1] in "[]":
            return False
    return "{version}" not in text and "{pep440_version}" not in text


def split_anchors(text):
    start = text.startswith("^")
    core = text[1:] if start else text
    end = core.endswith("$")
    core = core[:-1] if end else core
    return start, core, end


def expect_span(text, line):
    """where a pattern consisting of the literal `text` must match in `line` -> (a, b) | None"""
    start, core, end = split_anchors(text)
    if core == "":
        return None  # zero-length matches are ignored by bumpver
    if start and end:
        return (0, len(line)) if line == core else None
    if start:
        return (0, len(core)) if line.startswith(core) else None
    if end:
        # bumpver's regexes are compiled without MULTILINE and lines carry no separator
        return (len(line) - len(core), len(line)) if line.endswith(core) else None
    i = line.find(core)
    return (i, i + len(core)) if i >= 0 else None


def probe_lines(text, extra=()):
    _s, core, _e = split_anchors(text)
    lines = [text, core, "zz " + core + " zz", core + core, "", "unrelated line 123", "a", "ab", core[::-1],
             core.upper(), "zz " + core.upper(),
             # the text directly next to digits / letters / blanks, and as the last thing on a line after blanks
             "7" + core + "7", core + "7", "7" + core, "a" + core + "a", core + "_", "  " + core, core + "  ", "x " + core]
    for i in range(len(core)):
        lines.append(core[:i] + core[i + 1:])
        for c in ("x", "5", " ", core[i - 1] if i else "y"):
            lines.append(core[:i] + c + core[i + 1:])
        lines.append(core[:i])
        lines.append(core[i:])
        if core[i] == "\\" and i + 1 < len(core):
            for c in ("5", "a", " ", "_", "\n", "\t"):
                lines.append(core[:i] + c + core[i + 2:])
        if core[i] in "*+?{":
            prev = core[i - 1] if i else ""
            lines.append(core[:i] + prev * 3 + core[i + 1:])
            lines.append(core[:max(0, i - 1)] + core[i + 1:])
    lines.extend(extra)
    seen, out = set(), []
    for ln in lines:
        if "\n" not in ln and ln not in seen:
            seen.add(ln)
            out.append(ln)
    return out


def root_cause(text):
    _s, core, _e = split_anchors(text)
    if "|" in core:
        return "pipe-is-alternation"
    if "\\" in core:
        return "backslash-is-regex-escape"
    if "^" in core:
        return "caret-inside-is-anchor"
    if "$" in core:
        return "dollar-inside-is-anchor"
    return "other:" + "".join(sorted(set(core) & SPECIAL))


CAUSES = [("|", "pipe-is-alternation"), ("\\", "backslash-is-regex-escape"), ("^", "caret-inside-is-anchor"),
          ("$", "dollar-inside-is-anchor")]


def attribute(texts, fails):
    """root cause by intervention: the smallest set of character classes whose replacement by 'x' makes the
    failure disappear (several listed classes can be at work in one text; each is then reported on its own, so
    that every one of them is matched against known_findings.json separately).
    texts: list of literal pieces; fails(pieces) -> bool.  -> list of cause names"""
    def core_of(t):
        return split_anchors(t)[1] if len(texts) == 1 else t
    present = [(ch, name) for ch, name in CAUSES if any(ch in core_of(t) for t in texts)]

    def sub(t, chars):
        if len(texts) == 1:
            st, core, en = split_anchors(t)
            for ch in chars:
                core = core.replace(ch, "x")
            return ("^" if st else "") + core + ("$" if en else "")
        for ch in chars:
            t = t.replace(ch, "x")
        return t
    for size in range(1, len(present) + 1):
        for combo in itertools.combinations(present, size):
            try:
                if not fails([sub(t, [c for c, _n in combo]) for t in texts]):
                    return [n for _c, n in combo]
            except Exception:
                pass
    return [root_cause("".join(texts))]


def viols_for(bad, causes, extra_sig, nt, classes=()):
    """one violation per root cause"""
    base = bad[0].split(":")[0]
    out = viol(base + ":" + causes[0], dict(extra_sig, cause=causes[0]), bad[1], nt=nt, classes=classes)
    for c in causes[1:]:
        out.more.append((base + ":" + c, dict(extra_sig, cause=c), bad[1]))
    return out


class _Rx:
    """the compiled regex plus the matcher bumpver really applies to file lines (parse.iter_matches)"""

    def __init__(self, pat):
        self.pat = pat
        self.pattern = pat.regexp.pattern

    def search(self, line):
        m = self.pat.regexp.search(line)
        via_regex = m.span() if m and m.end() > m.start() else None
        found = list(bv_parse.iter_matches([line], [self.pat]))
        via_lines = tuple(found[0].span) if found else None
        if via_regex != via_lines:
            return _Span(via_lines, disagree=(via_regex, via_lines))
        return _Span(via_regex)


class _Span:
    def __init__(self, span, disagree=None):
        self._span = span
        self.disagree = disagree

    def span(self):
        return self._span

    def start(self):
        return self._span[0]

    def end(self):
        return self._span[1]

    def __bool__(self):
        return self._span is not None


def compile_v2(raw):
    return _Rx(v2patterns.compile_pattern.__wrapped__("MAJOR.MINOR.PATCH", raw))


def compile_v1(raw):
    return _Rx(v1patterns.compile_pattern.__wrapped__("{semver}", raw))


def literal_nodes_ok(rx, text):
    """the regex consists of LITERAL nodes spelling the core, AT nodes only at the very ends"""
    start, core, end = split_anchors(text)
    try:
        items = list(sre_parse.parse(rx.pattern))  # rx.pattern: the regex source
    except Exception:
        return False
    if start:
        if not items or items[0][0] != sre_c.AT:
            return False
        items = items[1:]
    if end:
        if not items or items[-1][0] != sre_c.AT:
            return False
        items = items[:-1]
    if len(items) != len(core):
        return False
    return all(op == sre_c.LITERAL and chr(av) == ch for (op, av), ch in zip(items, core))


def check_literal(text, compiler, ast_check=True):
    """-> None | (bucket, sig, detail)"""
    which = "v2" if compiler is compile_v2 else "legacy"
    raw = escape_brackets(text) if which == "v2" else text  # legacy patterns have no optional groups: brackets are plain text
    try:
        rx = compiler(raw)
    except re.error as ex:
        return ("pattern-does-not-compile:" + root_cause(text), {"cause": root_cause(text), "compiler": which}, {"text": text, "pattern": raw, "exc": repr(ex)})
    except Exception as ex:
        return ("compiler-raises", {"exc": type(ex).__name__, "compiler": which}, {"text": text, "pattern": raw, "exc": repr(ex)})
    if ast_check and not literal_nodes_ok(rx, text):
        return ("not-compiled-to-literals:" + root_cause(text), {"cause": root_cause(text), "compiler": which}, {"text": text, "pattern": raw, "regex": rx.pattern})
    for line in probe_lines(text):
        m = rx.search(line)
        got = m.span() if m and m.end() > m.start() else None
        want = expect_span(text, line)
        if got != want:
            return ("matches-other-than-itself:" + root_cause(text), {"cause": root_cause(text), "compiler": which},
                    {"text": text, "pattern": raw, "regex": rx.pattern, "line": line, "matched_span": got, "expected_span": want})
    return None


# ------------------------------------------------------------------ A: exhaustive up to length 3


class Blocks:
    """blocks of the exhaustive domain: (length, first char index, [second char index])"""

    def __init__(self):
        self.items = [{"len": 1}] + [{"len": 2, "a": a} for a in range(len(SIGMA))] + \
                     [{"len": 3, "a": a, "b": b} for a in range(len(SIGMA)) for b in range(len(SIGMA))]

    def __len__(self):
        return len(self.items)

    def __getitem__(self, i):
        return self.items[i]


def check_block(case):
    if case["len"] == 1:
        texts = SIGMA
    elif case["len"] == 2:
        texts = [SIGMA[case["a"]] + c for c in SIGMA]
    else:
        texts = [SIGMA[case["a"]] + SIGMA[case["b"]] + c for c in SIGMA]
    out = ok()
    n = nt = skipped = 0
    seen = set()
    for t in texts:
        if not expressible(t):
            skipped += 1
            continue
        n += 1
        if set(t) & SPECIAL:
            nt += 1
        bad = check_literal(t, compile_v2)
        if bad:
            for cause in attribute([t], lambda ts: check_literal(ts[0], compile_v2) is not None):
                b2 = (bad[0].split(":")[0] + ":" + cause, dict(bad[1], cause=cause), bad[2])
                if b2[0] not in seen:
                    seen.add(b2[0])
                    out.more.append(b2)
    out.n, out.nt_n, out.nt = max(n, 1), nt, True
    out.classes = (("not-expressible-skipped", skipped),)
    return out


# ------------------------------------------------------------------ B: random long literals, alone and around parts

META = list(".^$*+?{}[]\\|()")
PARTS_SAMPLE = [("YYYY", "2021"), ("MAJOR", "7"), ("0M", "09"), ("BUILD", "1001"), ("TAG", "beta"), ("PATCH", "12")]
LEGACY_SAMPLE = [("{year}", "2021"), ("{MAJOR}", "7"), ("{month}", "09"), ("{bid}", "1001"), ("{tag}", "beta"), ("{PATCH}", "12")]


IDIOMS = ["{2}", "{1,3}", "(?:", "(?i)", "\\d", "\\w+", ".*", ".+?", "[a-z]", "[^x]", "a|b", "(x)", "\\1", "\\b", "(?=", "x{0}", "a*", "b+?",
          "\\.", "^", "$", "||", "\\\\", "{,}", "(?P<n>", "a{2,}", "\\s", "\\Z", "\\A"]


def gen_text(d, lo, hi):
    n = d.int(lo, hi)
    out = []
    for _ in range(n):
        k = d.int(0, 10)
        if k == 10:
            out.append(d.choice(IDIOMS))
        elif k < 4:
            out.append(d.choice(META))
        elif k < 8:
            out.append(d.choice("abcdefghijklmnopqrstuvwxyz"))
        else:
            out.append(d.choice(SIGMA))
    return "".join(out)


PUNCT = [c for c in SIGMA if not c.isalnum()]
SAFE_END = [c for c in PUNCT if c not in "\\^$[]' "]


def gen_delim(d, lo, hi, left=True, right=True):
    """a literal whose ends cannot merge with a neighbouring part (non-alphanumeric, no dangling backslash)"""
    body = gen_text(d, lo, hi)
    while body.endswith("\\"):
        body = body[:-1]
    return (d.choice(SAFE_END) if left else "") + body + (d.choice(SAFE_END) if right else "")


def build_b(d):
    kind = d.choice(["alone", "alone", "wrapped", "wrapped", "legacy-alone", "legacy-wrapped"])
    if kind.endswith("alone"):
        return {"kind": kind, "text": gen_text(d, 1, 40)}
    n = d.int(1, 2)
    lits = [gen_delim(d, 0, 7, left=i > 0, right=i < n) for i in range(n + 1)]
    if lits[0].startswith("^"):
        lits[0] = "x" + lits[0]
    if lits[-1].endswith("$"):
        lits[-1] += "x"
    sample = LEGACY_SAMPLE if kind.startswith("legacy") else PARTS_SAMPLE
    parts = [d.int(0, len(sample) - 1) for _ in range(n)]
    return {"kind": kind, "lits": lits, "parts": parts}


def check_b(case):
    kind = case["kind"]
    legacy = kind.startswith("legacy")
    compiler = compile_v1 if legacy else compile_v2
    if kind.endswith("alone"):
        t = case["text"]
        if not expressible(t) or (legacy and ("{" in t or "}" in t)):
            return discard("not-expressible")
        bad = check_literal(t, compiler)
        nt = bool(set(t) & SPECIAL)
        if bad:
            causes = attribute([t], lambda ts: check_literal(ts[0], compiler) is not None)
            return viols_for((bad[0], bad[2]), causes, bad[1], nt, (kind,))
        return ok(nt=nt, classes=(kind,))
    sample = LEGACY_SAMPLE if legacy else PARTS_SAMPLE
    lits, pidx = case["lits"], case["parts"]
    # soundness: digits / letters of a literal next to a part can merge with it; keep a non-alphanumeric boundary
    for i, li in enumerate(lits):
        if not expressible(li) or (legacy and ("{" in li or "}" in li)):
            return discard("not-expressible")
        if li and ((i > 0 and li[0].isalnum()) or (i < len(lits) - 1 and li[-1].isalnum())):
            return discard("literal-could-merge-with-part")
        if li.endswith("\\") and i < len(lits) - 1:
            return discard("backslash-before-part")
    if len(pidx) == 2 and (lits[1] == "" or (legacy and sample[pidx[0]][0] == sample[pidx[1]][0])):
        return discard("glued-or-repeated-parts")  # (the v2 compiler numbers the groups of a repeated part; v1 does not)
    repeated = len(pidx) == 2 and pidx[0] == pidx[1]
    if lits[0].startswith("^") or lits[-1].endswith("$"):
        return discard("anchored-wrapped-pattern")
    nt = bool(set("".join(lits)) & SPECIAL)
    bad = wrapped_fail(lits, pidx, legacy)
    if bad:
        causes = attribute(lits, lambda ls: wrapped_fail(ls, pidx, legacy) is not None)
        return viols_for(bad, causes, {"compiler": "legacy" if legacy else "v2", "wrapped": True}, nt, (kind,))
    return ok(nt=nt, classes=(kind, "same-part-twice") if repeated else (kind,))


def wrapped_fail(lits, pidx, legacy):
    """lit PART lit [PART lit]: -> None | (bucket, detail)"""
    sample = LEGACY_SAMPLE if legacy else PARTS_SAMPLE
    compiler = compile_v1 if legacy else compile_v2
    esc = (lambda x: x) if legacy else escape_brackets
    whole = lits[0]
    raw = esc(lits[0])
    for k, pi in enumerate(pidx):
        raw += sample[pi][0] + esc(lits[k + 1])
        whole += sample[pi][1] + lits[k + 1]
    try:
        rx = compiler(raw)
    except re.error as ex:
        return ("pattern-does-not-compile", {"pattern": raw, "exc": repr(ex)})
    # probe lines: the instance, noise around it, single-character edits inside the literal portions
    lines = [whole, "zz " + whole + " zz", "", "unrelated 2021"]
    pos = 0
    spans = []
    for k, li in enumerate(lits):
        spans.append((pos, pos + len(li)))
        pos += len(li) + (len(sample[pidx[k]][1]) if k < len(pidx) else 0)
    for a, b in spans:
        for i in range(a, b):
            lines.append(whole[:i] + whole[i + 1:])
            lines.append(whole[:i] + "x" + whole[i + 1:])
            lines.append(whole[:i] + "5" + whole[i + 1:])
            if whole[i] == "\\" and i + 1 < b:
                lines.append(whole[:i] + "5" + whole[i + 2:])
                lines.append(whole[:i] + "a" + whole[i + 2:])
    lines.append(whole[:spans[0][1]])
    lines.append(whole[spans[-1][0]:])
    if whole.upper() != whole:
        lines += [whole.upper(), "zz " + whole.upper() + " zz"]  # differs in letter case only: not the text
    if lits[-1]:
        lines += [whole + "7", whole + "a", "zz " + whole + "7 zz"]
    if lits[0]:
        lines += ["7" + whole, "a" + whole, "zz 7" + whole]
    for line in dict.fromkeys(lines):
        if "\n" in line:
            continue
        m = rx.search(line)
        got = m.span() if m and m.end() > m.start() else None
        want = None
        i = line.find(whole)
        if i >= 0:
            want = (i, i + len(whole))
        if want is not None and got != want and not (got and got[0] <= want[0]):
            return ("does-not-match-itself", {"pattern": raw, "regex": rx.pattern, "line": line, "matched_span": got, "expected_span": want})
        if got is not None:
            seg = line[got[0]:got[1]]
            # every literal piece must occur verbatim, in order, inside what was matched
            p = 0
            okk = True
            for li in lits:
                j = seg.find(li, p)
                if j < 0:
                    okk = False
                    break
                p = j + len(li)
            if not okk or not seg.startswith(lits[0]) or not seg.endswith(lits[-1]):
                return ("matches-other-than-itself", {"pattern": raw, "regex": rx.pattern, "line": line, "matched": seg, "literals": lits})
    return None


# ------------------------------------------------------------------ C: CLI sample (grep, update)


def build_c(d):
    l1 = gen_delim(d, 0, 5).replace("'", "!")
    l2 = gen_delim(d, 0, 5).replace("'", "!")
    if l1[0] in "[^" or l1[:2] in ('""', "''"):
        l1 = "=" + l1  # (a value starting with two quotes is not expressible with toml 0.10.2)
    return {"lit1": l1, "lit2": l2}


def check_c(case):
    l1, l2 = case["lit1"], case["lit2"]
    for li in (l1, l2):
        if not expressible(li) or "'" in li or li[0].isalnum() or li[-1].isalnum() or li.endswith("\\") or li.startswith("^") or li.endswith("$"):
            return discard("not-usable-as-delimiter")
    if l1.startswith("[") or l1 != l1.strip() or l2 != l2.strip():
        return discard("not-usable-in-config")
    nt = bool(set(l1 + l2) & SPECIAL)
    bad = cli_fail(l1, l2)
    if bad:
        def refails(ls):
            a, b = ls
            if not a or not b or a != a.strip() or b != b.strip():
                return True
            return cli_fail(a, b) is not None
        causes = attribute([l1, l2], refails)
        return viols_for(bad, causes, {"via": bad[2], "compiler": "v2"}, nt)
    return ok(nt=nt)


def cli_fail(l1, l2):
    raw = escape_brackets(l1) + "{version}" + escape_brackets(l2)
    tmp = tempfile.mkdtemp(prefix="c07_")
    try:
        spec = {"current_version": "1.2.3", "version_pattern": "MAJOR.MINOR.PATCH", "files": [["f.txt", [raw]]]}
        projgen.write_file(tmp, "bumpver.toml", projgen.toml_config(spec))
        good = "keep " + l1 + "1.2.3" + l2 + " keep"
        decoy = "decoy " + ("x" if l1[0] != "x" else "y") + l1[1:] + "1.2.3" + l2
        projgen.write_file(tmp, "f.txt", decoy + "\n" + good + "\n")
        r = bv.run(["update", "--no-fetch", "--patch"], cwd=tmp)
        if r.exit != 0:
            return ("delimited-occurrence-not-found", {"pattern": raw, "res": r.summary()}, "update")
        with open(os.path.join(tmp, "f.txt"), encoding="utf-8", newline="") as f:
            new = f.read()
        want = decoy + "\n" + "keep " + l1 + "1.2.4" + l2 + " keep" + "\n"
        if new != want:
            return ("update-rewrote-other-than-the-literal-match", {"pattern": raw, "file": new, "expected": want}, "update")
        g = bv.run(["grep", "--version-pattern", "MAJOR.MINOR.PATCH", "--", raw, os.path.join(tmp, "f.txt")], cwd=tmp)
        if g.exit != 0 or (l1 + "1.2.4" + l2) not in g.out:
            return ("grep-does-not-find-literal", {"pattern": raw, "res": g.summary()}, "grep")
    finally:
        shutil.rmtree(tmp, ignore_errors=True)
    return None


# ------------------------------------------------------------------ D: `grep` finds the line wherever it stands


GREP_LITS = ["version: ", "v(", "a.b|", "{x}+? "]


def grep_domain(tier):
    out = []
    for nlines in range(1, 7):
        for pos in range(nlines):
            for second in [None] + [q for q in range(pos + 1, nlines)]:
                for lit in GREP_LITS:
                    for final_nl in (True, False):
                        out.append({"nlines": nlines, "pos": pos, "second": second, "lit": lit, "final_newline": final_nl})
    return out


def check_grep(case):
    """file of nlines lines, the literal + version stands on line `pos` (and `second`); decoys (literal with one
    character changed) on the others: grep must exit 0, show every matching line under its line number, and show no
    line that is neither a match nor directly next to one"""
    lit = case["lit"]
    raw = escape_brackets(lit) + "{version}"
    hits = {case["pos"]} | ({case["second"]} if case["second"] is not None else set())
    lines = []
    for i in range(case["nlines"]):
        if i in hits:
            lines.append("keep %s1.2.%d tail" % (lit, i))
        else:
            lines.append("decoy %s1.2.%d" % (("x" if lit[0] != "x" else "y") + lit[1:], i))
    text = "\n".join(lines) + ("\n" if case["final_newline"] else "")
    tmp = tempfile.mkdtemp(prefix="c07g_")
    try:
        projgen.write_file(tmp, "f.txt", text)
        g = bv.run(["grep", "--version-pattern", "MAJOR.MINOR.PATCH", "--", raw, os.path.join(tmp, "f.txt")], cwd=tmp)
    finally:
        shutil.rmtree(tmp, ignore_errors=True)
    sig = {"via": "grep", "first_line": case["pos"] == 0, "lines": min(case["nlines"], 3)}
    detail = {"pattern": raw, "file": text, "res": g.summary(500)}
    if g.crashed:
        return viol("grep-crashes-on-a-matching-line", sig, detail)
    if g.exit != 0:
        return viol("grep-does-not-find-literal", sig, detail)
    shown = {}
    for ln in g.out.splitlines():
        head, sep, rest = ln.partition(": ")
        if sep and head.strip().isdigit():
            shown.setdefault(int(head.strip()), []).append(rest)
    for i in sorted(hits):
        if lines[i] not in shown.get(i + 1, []):
            return viol("grep-does-not-show-the-matching-line", sig, dict(detail, line=i + 1))
    for no in shown:
        i = no - 1
        if not (0 <= i < len(lines)) or not any(abs(i - h) <= 1 for h in hits):
            return viol("grep-shows-a-line-that-does-not-contain-the-text", sig, dict(detail, line=no))
        if any(r != lines[i] for r in shown[no]):
            return viol("grep-shows-a-line-under-a-wrong-number", sig, dict(detail, line=no))
    return ok(nt=case["nlines"] >= 3, classes=("match-on-first-line",) if case["pos"] == 0 else ())


def selftest():
    if len(SIGMA) != 69:
        raise HarnessError("alphabet size")
    if expect_span("^ab", "abab") != (0, 2) or expect_span("b$", "abab") != (3, 4) or expect_span("a.b", "axb") is not None:
        raise HarnessError("expect_span oracle")


PARTS = [
    Part("A-exhaustive-len-1-3", check=check_block, domain=lambda tier: Blocks(), exhaustive=lambda tier: True),
    Part("B-random-literals", check=check_b, strategy=lambda: dp.cases(build_b, size=200), n={"quick": 32000, "thorough": 800000}, max_discard=0.35),
    fuzz.fuzz_part("B-coverage-guided", build_b, check_b, size=200, runs={"quick": 8000, "thorough": 240000}, max_discard=0.5),
    Part("D-grep-line-positions", check=check_grep, domain=grep_domain, exhaustive=lambda tier: True),
    Part("C-cli-delimiters", check=check_c, strategy=lambda: dp.cases(build_c, size=48), n={"quick": 3000, "thorough": 60000}, max_discard=0.35),
]

MANIFEST = {
    "text": "Exhaustive over all 333,339 literal strings of length 1..3 (both tiers) and generated literals up to length 40 "
            "alone and around real parts (also the same part twice), for the v2 and the legacy compiler, plus a CLI sample "
            "(update, grep) and an exhaustive sweep of `grep` over every position of the matching line(s) in files of 1-6 lines: the "
            "compiled regex must be a pure literal (regex AST) and must match exactly where the text occurs.",
    "note": "Alphabet is printable ASCII without upper-case letters; a backslash directly before a bracket is not "
            "expressible and excluded. Recorded/fixed findings about '|', backslash, inner '^'/'$': known_findings.json F7*.",
    "technique": "exhaustive enumeration + property-based testing (Hypothesis); regex-AST and behavioural (reference matcher) oracles; plus coverage-guided fuzzing (atheris/libFuzzer) of the same byte decoder and oracle",
}
