"""C03 - after an update no configured occurrence is left stale."""
import os
import shutil
import tempfile
import datetime as dt

from harness.core import Part, ok, viol, discard
from harness import dp, bv, grammar, projgen, pep440ref
from harness.refmodel import parts_of, pattern_str, ref_render, ref_parse_all, with_defaults

ID = "C03"
LEVEL = "exploration"
RULE = ("One Hypothesis binary draw is decoded into a project: version pattern (grammar G, or its PEP 440-shaped sub-grammar "
        "when {pep440_version} patterns are used), reachable state, 1..5 files x 1..4 search patterns each ({version}, "
        "{pep440_version}, explicit full pattern, partial pattern over a subset of the version's fields with alternate part "
        "spellings) wrapped in unique delimiters, occurrences on own or shared lines, LF/CRLF/CR/mixed endings, with or "
        "without final newline, glob entry + explicit entry for a globbed file, a glob entry that also covers the config file, optional explicit config entry, bystander "
        "files; flags/date chosen so that a bump is likely. Real `update` (commit off). Oracle when exit 0: the announced "
        "version N has a unique reference parse E; EVERY file must equal, byte for byte, its template re-filled with E "
        "({pep440_version} holes: canonical PEP 440 of N, or any PEP 440-equal spelling); the config holds N; `show` prints N. "
        "Generator self-check (reference matcher: each pattern matches exactly where planted) failures are discards. "
        "Non-trivial: some file has >= 2 patterns.")
ASSUME = ["reference renderer/recogniser (harness/refmodel.py)", "packaging.version for the PEP 440 form",
          "search patterns are delimited by unique literals, so they can match only where planted (construction oracle)"]


def build(d):
    pep = d.chance(1, 2)
    nodes, state, text = (grammar.gen_pep440_pattern_and_state(d) if pep else grammar.gen_pattern_and_state(d, safe_seps=True))
    if nodes is None:
        return {"discard": state}
    spec = projgen.gen_project(d, nodes, state, pep_shaped=pep, regimes=["lf", "lf", "crlf", "cr", "mixed"], cover_config=d.chance(1, 4), nested=True, share_patterns=True)
    flags, date = projgen.gen_bump(d, nodes, state)
    return {"spec": spec, "flags": flags, "date": date}


def compare_files(spec, E, N, root, sig, detail):
    """every configured file must equal its template re-filled with E.  -> None | (bucket, sig, detail)"""
    want = projgen.expected_files(spec, E)
    vN = pep440ref.pep440(N)
    for path, text in want.items():
        with open(os.path.join(root, path), "rb") as f:
            have = f.read().decode("utf-8")
        if have == text:
            continue
        if path == "bumpver.toml":
            hl, wl = have.splitlines(True), text.splitlines(True)
            i = next((k for k in range(min(len(hl), len(wl))) if hl[k] != wl[k]), min(len(hl), len(wl)))
            return ("config-does-not-hold-new-version", sig, dict(detail, file=path, have=hl[i:i + 1], want=wl[i:i + 1]))
        fspec = next(f for f in spec["files"] if f["path"] == path)
        # walk the template: text segments, separators and non-pep occurrences must be there verbatim; a
        # {pep440_version} hole may hold any PEP 440-equal spelling (its exact form is C15's subject)
        pos = 1 if fspec.get("bom") and have.startswith("\ufeff") else 0
        for li, (segs, sep) in enumerate(zip(fspec["lines"], fspec["seps"])):
            occ = [v for k, v in segs if k == "o"]
            kinds = sorted({spec["patterns"][v]["kind"] for v in occ})
            shared = len(occ) >= 2
            line_start = pos
            okay = True
            for k, v in list(segs) + [["t", sep]]:
                if k == "t":
                    t = v
                elif spec["patterns"][v]["kind"] != "pep":
                    t = projgen.occurrence_text(spec["patterns"][v], spec["ast"], E)
                else:
                    pat = spec["patterns"][v]
                    if not have.startswith(pat["d1"], pos):
                        okay = False
                        break
                    e = have.find(pat["d2"], pos + len(pat["d1"]))
                    vT = pep440ref.pep440(have[pos + len(pat["d1"]):e]) if e >= 0 else None
                    if vT is None or vN is None or vT != vN:
                        okay = False
                        break
                    pos = e + len(pat["d2"])
                    continue
                if not have.startswith(t, pos):
                    okay = False
                    break
                pos += len(t)
            if not okay:
                wline = "".join(v if k == "t" else projgen.occurrence_text(spec["patterns"][v], spec["ast"], E) for k, v in segs)
                d2 = dict(detail, file=path, template_line=li, have=have[line_start:line_start + len(wline) + 40], want=wline)
                if shared:
                    return ("stale-occurrence:several-patterns-on-one-line", dict(sig, shared=True, kinds=kinds), d2)
                return ("stale-or-wrong-occurrence:" + "+".join(kinds or ["none"]), dict(sig, shared=False, kinds=kinds), d2)
        if pos != len(have):
            return ("trailing-bytes-differ", sig, dict(detail, file=path, have=have[pos:pos + 80]))
    return None


def check(case):
    if "discard" in case:
        return discard(case["discard"])
    spec, flags = case["spec"], dict(case["flags"])
    ast, state = spec["ast"], spec["state"]
    why = projgen.construction_ok(spec, state)
    if why:
        return discard("construction-self-check")
    date = dt.date.fromisoformat(case["date"])
    if not flags.get("pin_date"):
        flags["date"] = case["date"]
    per_file = {}
    for key, idx in spec["entries"]:
        per_file[key] = len(idx)
    nt = any(len({v for segs in f["lines"] for k, v in segs if k == "o"}) >= 2 for f in spec["files"])
    classes = []
    if any(p.get("nested") for p in spec["patterns"]):
        classes.append("pattern-nested-in-another-patterns-occurrence")
    if any(sum(1 for k, _v in segs if k == "o") >= 2 for f in spec["files"] for segs in f["lines"]):
        classes.append("two-occurrences-share-a-line")
    if any("*" in key for key, _ in spec["entries"]):
        classes.append("glob-entry")
    if spec.get("config_marks"):
        classes.append("glob-covers-config-file")
    if any(p["kind"] == "partial" for p in spec["patterns"]):
        classes.append("partial-pattern")
    if any(p["kind"] == "pep" for p in spec["patterns"]):
        classes.append("pep440-pattern")
    if any(f["regime"] in ("crlf", "cr", "mixed") for f in spec["files"]):
        classes.append("crlf-cr-or-mixed")
    tmp = tempfile.mkdtemp(prefix="c03_")
    try:
        old = projgen.materialize(spec, tmp, state)
        before = projgen.snapshot(tmp)
        args = ["update", "--no-fetch"] + bv.flag_args(flags)
        r = bv.run(args, cwd=tmp, today=date)
        detail = {"args": args, "pattern": pattern_str(ast), "old": old, "res": r.summary(300)}
        if r.exit != 0:
            classes.append("update-declined")
            return ok(nt=False, classes=tuple(classes))
        classes.append("updated")
        N = r.new_version
        ps = ref_parse_all(ast, N) if N else []
        if len(ps) != 1:
            return viol("announced-version-not-uniquely-readable", {}, dict(detail, announced=N, parses=ps), nt=nt, classes=tuple(classes))
        E = with_defaults(ast, ps[0])
        sig = {}
        bad = compare_files(spec, E, N, tmp, sig, dict(detail, announced=N))
        if bad:
            return viol(bad[0], bad[1], bad[2], nt=nt, classes=tuple(classes))
        after = projgen.snapshot(tmp)
        for b in spec["bystanders"]:
            if after.get(b["path"]) != before.get(b["path"]):
                return viol("unconfigured-file-written", {}, dict(detail, file=b["path"]), nt=nt, classes=tuple(classes))
        r2 = bv.run(["show", "--no-fetch"], cwd=tmp, today=date)
        if r2.exit != 0 or r2.field("Current Version", "out") != N:
            return viol("show-does-not-report-new-version", {}, dict(detail, announced=N, show=r2.summary(300)), nt=nt, classes=tuple(classes))
        return ok(nt=nt, classes=tuple(classes))
    finally:
        shutil.rmtree(tmp, ignore_errors=True)


PARTS = [
    Part("update-projects", check=check, strategy=lambda: dp.cases(build, size=700), n={"quick": 16000, "thorough": 400000}, max_discard=0.1),
]

MANIFEST = {
    "text": "Generated-input search over project layouts with a construction oracle: the generator owns every file as a "
            "template with holes, so after a successful `update` the complete bytes of every configured file (and the "
            "config) are compared with the template re-filled from the announced version.",
    "note": "Search patterns are delimited by unique literals (so that 'where a pattern matches' is known by construction); "
            "patterns from grammar G; TOML config only (other formats: C18). Sampled, cannot prove absence.",
    "technique": "property-based testing (Hypothesis, grammar-decoded project layouts) with a construction oracle",
}
