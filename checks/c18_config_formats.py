"""C18 - the same configuration means the same thing in every config format."""
import os
import re
import json
import shutil
import logging
import tempfile
import datetime as dt

from harness.core import Part, ok, viol, discard
from harness import dp, bv, projgen, udiff

from bumpver import config as bv_config
from bumpver import v2version, v2patterns, v1version, v1patterns

ID = "C18"
LEVEL = "exploration"
RULE = ("One Hypothesis binary draw is decoded into an abstract configuration: version + pattern (v2 and legacy), optional "
        "commit/tag message, tag scope (incl. an invalid one), hooks that exist or not, commit/tag/push (incl. invalid "
        "combinations and missing keys), 0..6 files x 1..4 search patterns ({version}, {pep440_version}, partial), a glob "
        "entry, a glob entry that covers the config file itself plus a sibling (*.cfg / *.toml); it is rendered into six sibling directories: setup.cfg [bumpver], setup.cfg [pycalver], pyproject.toml "
        "[tool.bumpver], bumpver.toml, .bumpver.toml, pycalver.toml [pycalver] - INI booleans in every accepted spelling (yes "
        "true 1 on in any case; other words for false), INI strings unquoted / double / single quoted independently per key. "
        "Oracle: config.init gives None in all six or Configs that are equal field by field and in the set of (file, search "
        "pattern) pairs, apart from the entry of the config file itself, which must exist and match the file's own "
        "current_version line; `show` and `update --dry` exit alike and print the same text modulo the config file name. "
        "Non-trivial: >= 2 files or a non-default boolean / quoting variant.")
ASSUME = ["only configurations expressible in both syntaxes: no leading/trailing blanks or quotes in values, single-line messages, "
          "no '=' / ':' in file names, no pattern starting with '#', ';' or '['"]

FORMATS = [("setup.cfg", "ini", "bumpver"), ("setup.cfg", "ini", "pycalver"), ("pyproject.toml", "toml", "tool.bumpver"),
           ("bumpver.toml", "toml", "bumpver"), (".bumpver.toml", "toml", "bumpver"), ("pycalver.toml", "toml", "pycalver")]
VERSIONS = [("MAJOR.MINOR.PATCH", "1.2.3", ["--patch"], ["api v{k}.MAJOR", "docs/{k}/MAJOR.MINOR/"]),
            ("vYYYY.BUILD[-TAG]", "v2020.1001-beta", [], ["(c{k}) 2018-YYYY", "build{k}: BLD"]),
            ("YYYY.0M.PATCH[PYTAGNUM]", "2020.05.3rc1", ["--patch"], ["(c{k}) YYYY", "m{k}=MM;"]),
            ("vYYYY0M.BUILD[-TAG]", "v202005.1001", [], ["y{k}: YY"]),
            ("MAJOR.MINOR[.PATCH[-TAG]]", "1.2", ["--minor"], ["maj{k}=MAJOR;"]),
            ("{pycalver}", "v202010.1001-beta", [], []),
            ("{semver}", "1.2.3", ["--patch"], [])]
GENERIC = ['ver{k}="{version}"', "(v{k} {version})", "v{k}: {version};", "rel{k} = '{pep440_version}'", "<x{k}>{version}</x>",
           "?{k}={pep440_version}&", "{k}% {version} %", 'v{k} = "{version}"  # managed by bumpver', "{k}: {version} ; note",
           '"q{k} {version}"', "'s{k} {version}'"]  # (quoted at both ends: the quotes are literal text of the pattern)
TRUE_WORDS = ["yes", "true", "1", "on", "True", "YES", "On", "TRUE"]
FALSE_WORDS = ["no", "false", "0", "off", "False", "nope", "", "2"]
MESSAGES = ["bump {old_version} -> {new_version}", "release: {new_version}", "chore(release) v{new_version_pep440} [skip ci]",
            "it's {new_version}", 'say "{new_version}" now', "x = {new_version}; y: 1", "100% {new_version}", "ünï {new_version}", "release {new_version} (closes #42)", "bump ; then {new_version}"]
NAMES = ["README.md", "src/pkg/__init__.py", "docs/conf.py", "a b.txt", "Setup.PY", "x-1.txt"]


def build(d):
    vp, cur, flags, partials = d.choice(VERSIONS)
    cfg = {"version_pattern": vp, "current_version": cur, "flags": flags}
    if d.chance(1, 2):
        cfg["commit_message"] = d.choice(MESSAGES)
    if d.chance(1, 3):
        cfg["tag_message"] = d.choice(MESSAGES)
    if d.chance(1, 2):
        cfg["tag_scope"] = d.choice(["default", "global", "branch", "branch", "global", "default", "branch", "sideways"])
    for hook in ("pre_commit_hook", "post_commit_hook"):
        if d.chance(1, 4):
            cfg[hook] = d.choice(["hooks/run.sh", "hooks/run.sh", "hooks/run.sh", "hooks/missing.sh"])
    for key in ("commit", "tag", "push"):
        k = d.int(0, 3)
        if k == 1:
            cfg[key] = True
        elif k == 2:
            cfg[key] = False
    if (cfg.get("tag") or cfg.get("push")) and not cfg.get("commit") and d.chance(7, 8):
        cfg["commit"] = True  # invalid combinations (tag/push without commit) stay in, but rarely
    if d.chance(1, 24):
        del cfg[d.choice(["version_pattern", "current_version"])]
    files = []
    names = d.shuffle(NAMES)[:d.int(0, 5)]
    k = 0
    for nm in names:
        pats = []
        for _ in range(d.int(1, 4)):
            k += 1
            src = GENERIC + partials + partials if partials else GENERIC
            p = d.choice(src).replace("{k}", str(k))
            pats.append(p)
        files.append([nm, pats])
    if d.chance(1, 4):
        k += 1
        files.append(["glob/*.txt", [d.choice(GENERIC).replace("{k}", str(k))]])
    cfg["files"] = files
    if d.chance(1, 5):
        # a glob entry that covers the config file itself and a sibling of the same extension (*.cfg / *.toml)
        k += 1
        cfg["config_glob"] = "mark%d <{version}>" % k
    ini = {"bool": {key: d.choice(TRUE_WORDS if cfg.get(key) else FALSE_WORDS) for key in ("commit", "tag", "push")},
           "quote": {key: d.choice(["", '"', "'"]) for key in ("current_version", "version_pattern", "commit_message", "tag_message",
                                                                "tag_scope", "pre_commit_hook", "post_commit_hook")},
           "spaces": d.choice([" = ", "=", " : ", " =  "]),
           # INI only: the first pattern of an entry on the key line itself (README.md = version {version})
           "keyline": d.chance(1, 4)}
    # another tool's section whose name starts like ours and which has a current_version of its own (bump2version)
    cfg["lookalike"] = d.chance(1, 5)
    return {"cfg": cfg, "ini": ini}


def render_ini(cfg, ini, section):
    q = ini["quote"]
    lines = ["[metadata]", "name = demo", ""]
    if cfg.get("lookalike"):
        lines += ["[bumpversion]", "current_version = %s" % cfg.get("current_version", "0.0.1"), "commit = False", "", "[bumpversion:file:setup.py]", ""]
    lines.append("[%s]" % section)
    for key in ("current_version", "version_pattern", "commit_message", "tag_message", "tag_scope", "pre_commit_hook", "post_commit_hook"):
        if key in cfg:
            sep = " = " if key == "current_version" else ini["spaces"]
            lines.append("%s%s%s%s%s" % (key, sep, q[key], cfg[key], q[key]))
    for key in ("commit", "tag", "push"):
        if key in cfg:
            lines.append("%s = %s" % (key, ini["bool"][key]))
    lines += ["", "[%s:file_patterns]" % section]
    for path, pats in cfg["files"]:
        if ini.get("keyline") and pats and pats[0].strip() == pats[0]:
            lines.append("%s = %s" % (path, pats[0]))
            pats = pats[1:]
        else:
            lines.append("%s =" % path)
        for p in pats:
            lines.append("    " + p)
    if cfg.get("config_glob"):
        lines += ["*.cfg =", "    " + cfg["config_glob"], "", "# " + old_text(cfg, cfg["config_glob"])]
    return "\n".join(lines) + "\n"


def render_toml(cfg, table):
    lines = ["[other]", "name = 'demo'", ""]
    if cfg.get("lookalike"):
        lines += ["[tool.bumpversion]", 'current_version = "%s"' % cfg.get("current_version", "0.0.1"), "commit = false", ""]
    lines.append("[%s]" % table)
    for key in ("current_version", "version_pattern", "commit_message", "tag_message", "tag_scope", "pre_commit_hook", "post_commit_hook"):
        if key in cfg:
            if key == "current_version":
                lines.append('current_version = "%s"' % cfg[key])
            else:
                lines.append("%s = %s" % (key, projgen.toml_str(cfg[key])))
    for key in ("commit", "tag", "push"):
        if key in cfg:
            lines.append("%s = %s" % (key, "true" if cfg[key] else "false"))
    lines += ["", "[%s.file_patterns]" % table]
    for path, pats in cfg["files"]:
        lines.append("%s = [" % projgen.toml_key(path))
        for p in pats:
            lines.append("    %s," % projgen.toml_str(p))
        lines.append("]")
    if cfg.get("config_glob"):
        lines += ["'*.toml' = [%s]" % projgen.toml_str(cfg["config_glob"]), "", "# " + old_text(cfg, cfg["config_glob"])]
    return "\n".join(lines) + "\n"


def old_text(cfg, raw):
    """what the project file holds for this pattern at the current version (bumpver's own renderer, as set-up)"""
    vp, cur = cfg.get("version_pattern"), cfg.get("current_version")
    if vp is None or cur is None:
        return "?"
    logging.disable(logging.CRITICAL)
    try:
        if "{" in vp:
            vinfo = v1version.parse_version_info(cur, vp)
            return v1version.format_version(vinfo, v1patterns._normalized_pattern(vp, raw))
        vinfo = v2version.parse_version_info(cur, vp)
        return v2version.format_version(vinfo, v2patterns.normalize_pattern(vp, raw))
    finally:
        logging.disable(logging.NOTSET)


def materialise(root, cfg, ini, fmt):
    fname, kind, section = fmt
    projgen.write_file(root, fname, render_ini(cfg, ini, section) if kind == "ini" else render_toml(cfg, section))
    projgen.write_file(root, "hooks/run.sh", "#!/bin/sh\nexit 0\n")
    os.chmod(os.path.join(root, "hooks/run.sh"), 0o755)
    if cfg.get("config_glob"):
        projgen.write_file(root, "sibling." + ("cfg" if kind == "ini" else "toml"), "# line: %s\n" % old_text(cfg, cfg["config_glob"]))
    for path, pats in cfg["files"]:
        body = "".join("line: %s\n" % old_text(cfg, p) for p in pats)
        if "*" in path:
            projgen.write_file(root, "glob/one.txt", body)
            projgen.write_file(root, "glob/two.txt", "second\n" + body)
        else:
            projgen.write_file(root, path, body)


def summarise(cfgobj, own):
    d = cfgobj._asdict()
    fp = d.pop("file_patterns")
    pairs = set()
    own_patterns = []
    for path, pats in fp.items():
        for p in pats:
            if path == own:
                own_patterns.append(p)
            else:
                pairs.add(("<SIBLING>" if path in ("sibling.cfg", "sibling.toml") else path, p.raw_pattern))
    d["tag_scope"] = d["tag_scope"].value
    return d, pairs, own_patterns


def check(case):
    cfg, ini = case["cfg"], case["ini"]
    base = tempfile.mkdtemp(prefix="c18_")
    cwd0 = os.getcwd()
    try:
        results = []
        for i, fmt in enumerate(FORMATS):
            root = os.path.join(base, "f%d" % i)
            os.makedirs(root)
            materialise(root, cfg, ini, fmt)
            os.chdir(root)
            logging.disable(logging.CRITICAL)
            try:
                _ctx, c = bv_config.init(project_path=".")
                crash = None
            except Exception as ex:
                c, crash = None, repr(ex)
            finally:
                logging.disable(logging.NOTSET)
                os.chdir(cwd0)
            results.append((fmt, root, c, crash))
        nt = len(cfg["files"]) >= 2 or any(ini["quote"].values()) or any(ini["bool"][k] not in ("true", "false") for k in ini["bool"])
        names = ["%s[%s]" % (f[0], f[2]) for f in FORMATS]
        detail = {"cfg": cfg, "ini": ini, "ini_text": render_ini(cfg, ini, "bumpver")}
        crashes = [(names[i], r[3]) for i, r in enumerate(results) if r[3]]
        if crashes:
            kinds = sorted({n.split("[")[0].split(".")[-1] for n, _ in crashes})
            return viol("config-loader-crashes:" + "+".join(kinds), {"formats": kinds}, dict(detail, crashes=crashes), nt=nt)
        loaded = [r[2] is not None for r in results]
        if any(loaded) and not all(loaded):
            bad = [names[i] for i, x in enumerate(loaded) if not x]
            side = "ini-rejects" if all("setup.cfg" in b for b in bad) else "toml-rejects" if all("setup.cfg" not in b for b in bad) else "mixed"
            return viol("accepted-in-some-formats-only:" + side, {"side": side}, dict(detail, rejected_in=bad), nt=nt)
        if not any(loaded):
            return ok(nt=False, classes=("rejected-everywhere",))
        ref_d, ref_pairs, _ = summarise(results[3][2], FORMATS[3][0])
        for i, (fmt, root, c, _crash) in enumerate(results):
            dd, pairs, own = summarise(c, fmt[0])
            for key in ref_d:
                if dd[key] != ref_d[key]:
                    return viol("setting-differs:" + key, {"key": key, "format": names[i]}, dict(detail, format=names[i], value=repr(dd[key]), reference=repr(ref_d[key])), nt=nt)
            if pairs != ref_pairs:
                return viol("file-patterns-differ", {"format": names[i]}, dict(detail, format=names[i], only_here=sorted(pairs - ref_pairs), missing=sorted(ref_pairs - pairs)), nt=nt)
            if not own:
                return viol("no-entry-for-own-config-file", {"format": names[i]}, dict(detail, format=names[i]), nt=nt)
            with open(os.path.join(root, fmt[0]), encoding="utf-8") as f:
                # the current_version line of OUR section (another tool's section may have one as well)
                cv_lines, inside = [], False
                for ln in f.read().splitlines():
                    if ln.startswith("["):
                        inside = ln.strip() == "[%s]" % fmt[2]
                    elif inside and ln.startswith("current_version"):
                        cv_lines.append(ln)
            if not any(p.regexp.search(ln) for p in own for ln in cv_lines):
                return viol("own-entry-does-not-match-current_version-line", {"format_kind": fmt[1]},
                            dict(detail, format=names[i], line=cv_lines, patterns=[p.raw_pattern for p in own]), nt=nt)
        # CLI level: show and update --dry
        outs = []
        for i, (fmt, root, c, _crash) in enumerate(results):
            r1 = bv.run(["show", "--no-fetch"], cwd=root)
            r2 = bv.run(["update", "--no-fetch", "--dry", "--date", "2021-03-04"] + cfg["flags"], cwd=root, today=dt.date(2021, 3, 4))
            norm = lambda t: t.replace(fmt[0], "<CONFIG>").replace("sibling.cfg", "<SIBLING>").replace("sibling.toml", "<SIBLING>")  # noqa: E731
            # the diff of the config file itself necessarily differs between formats: compare the other files' hunks
            try:
                sections = [(norm(p), h) for p, h in udiff.parse(r2.out) if p != fmt[0]] if r2.exit == 0 else None
                has_cfg = any(p == fmt[0] for p, _h in udiff.parse(r2.out)) if r2.exit == 0 else None
            except udiff.DiffError as ex:
                sections, has_cfg = "unparseable: %s" % ex, None
            vers = [ln for ln in r2.err.splitlines() if "Version:" in ln]
            outs.append((r1.exit, norm(r1.out), r2.exit, json.dumps([sections, has_cfg, vers]), r2.err[-400:]))
        for i, o in enumerate(outs):
            if o[0] != outs[3][0] or o[1] != outs[3][1]:
                return viol("show-differs-between-formats", {"format": names[i]}, dict(detail, format=names[i], here=o[:2], reference=outs[3][:2]), nt=nt)
            if o[2] != outs[3][2] or o[3] != outs[3][3]:
                return viol("update-dry-differs-between-formats", {"format_kind": FORMATS[i][1]},
                            dict(detail, format=names[i], here=[o[2], o[3][-600:], o[4]], reference=[outs[3][2], outs[3][3][-600:], outs[3][4]]), nt=nt)
        return ok(nt=nt, classes=("loaded-everywhere", "glob-covers-config-file") if cfg.get("config_glob") else ("loaded-everywhere",))
    finally:
        os.chdir(cwd0)
        shutil.rmtree(base, ignore_errors=True)


PARTS = [
    Part("six-renderings", check=check, strategy=lambda: dp.cases(build, size=128), n={"quick": 4000, "thorough": 120000}),
]

MANIFEST = {
    "text": "Differential: one generated abstract configuration is written in six config spellings (INI with every boolean word "
            "and quoting variant, three TOML tables/files, legacy sections) and loaded in sibling directories; effective "
            "settings, (file, pattern) pairs, the self entry and the output of `show` / `update --dry` must agree.",
    "note": "Only configurations expressible in both syntaxes are generated. File contents for `update --dry` are produced with "
            "bumpver's own renderer (set-up, identical in all six directories).",
    "technique": "property-based testing (Hypothesis) with a differential oracle across config formats",
}
