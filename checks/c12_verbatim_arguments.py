"""C12 - messages, tag names and paths reach the VCS verbatim."""
import os
import re
import shutil
import tempfile

from harness.core import Part, ok, viol, discard
from harness import dp, bv, projgen, fakevcs, gitbox, pep440ref

ID = "C12"
LEVEL = "exploration"
RULE = ("One Hypothesis binary draw is decoded into commit- and tag-message templates (config and/or -c / --tag-message) over "
        "printable Unicode with forced inclusion of ' \" \\ $ ` blanks, leading '-', new-lines, the documented placeholders "
        "({new_version} {old_version} {new_version_pep440} {old_version_pep440}; OLD / NEW on the command line only) and 1..3 "
        "configured file names with blanks, quotes, '$', ';', '#', non-ASCII, leading '-' (no glob metacharacters). Bulk: fake "
        "git and fake hg logging argv; sample: real git. Oracle: the argv log contains exactly `git commit --message <msg>`, "
        "`git tag --annotate <N> --message <tagmsg>` (or `git tag <N>`), one `git add --update <path>` per configured path "
        "(hg: add <path>, commit --logfile with the message as file content, tag <N> --message <msg>) - same number of "
        "arguments, each value one argument, <msg> = the template with placeholders substituted by an own substitution; real "
        "git: commit message (modulo git's whitespace clean-up), tag message, tag name, committed paths, author. Non-trivial: "
        "some value contains a quote, backslash, blank, '$', back-tick, new-line or leading dash.")
ASSUME = ["braces other than the documented placeholders are template syntax and not generated",
          "config values do not begin/end with a quote or blank (the config reader strips those; that is C18's subject)",
          "fake git/hg for the bulk; hg only through the fake"]

OLD, NEW = "v2020.1001-beta", "v2020.1002-beta"
OLDP, NEWP = "2020.1001b0", "2020.1002b0"
NASTY = ["'", '"', "\\", "$", "`", " ", "\n", "-", "--", ";", "&&", "|", "#", "$(id)", "'; echo x; '", "\\'", "é", "→", "%s", "''", '""',
         "e\u0301", "\u2126", "A\u030a", "\ufb01", "\u1e9b\u0323",  # not in Unicode normal form C / compatibility characters
         "\t", "$HOME", "*", "!", "~", "--amend", "--allow-empty-message", "--author='evil <e@e>'", "\\n"]
WORDS = ["bump", "version", "to", "release", "from", "chore:", "x", "(ci skip)"]
PLACE = ["{new_version}", "{old_version}", "{new_version_pep440}", "{old_version_pep440}"]


def gen_msg(d, cli):
    n = d.int(1, 7)
    toks = []
    for _ in range(n):
        k = d.int(0, 9)
        if k < 4:
            toks.append(d.choice(NASTY))
        elif k < 7:
            toks.append(d.choice(WORDS))
        elif k < 9:
            toks.append(d.choice(PLACE))
        else:
            # OLD / NEW are shorthands on the command line only: in a config value they are plain words
            toks.append(d.choice([" OLD ", " NEW ", "(NEW)", " OLD->NEW "]))
    sep = d.choice(["", " ", " "])
    s = sep.join(toks)
    if d.chance(1, 6):
        s = "-" + s
    if not cli:
        # the config reader strips quotes and blanks at both ends of a value (not this property's subject)
        core = s.strip("'\" ")
        s = core if core else "msg"
    return s


def gen_name(d):
    base = d.choice(["a.txt", "read me.md", "it's.txt", 'say "hi".txt', "co$t.txt", "ünï→.txt", "-dash.txt", "semi;colon.txt",
                     "#hash.txt", "b`tick`.txt", "sub dir/file name.txt", "back\\slash.txt", "amp&ersand.txt", "$(id).txt", "--update.txt",
                     "two  blanks.txt", "trail space .txt", "pipe|name.txt", "tilde~.txt", "percent%d.txt",
                     "cafe\u0301.txt", "\u2126hm.txt"])
    return base


def build(d):
    names = []
    for _ in range(d.int(1, 3)):
        nm = gen_name(d)
        if nm not in names:
            names.append(nm)
    cfg_commit = gen_msg(d, False) if d.chance(2, 3) else None
    cfg_tag = gen_msg(d, False) if d.chance(1, 2) else None
    cli_commit = gen_msg(d, True) if d.chance(1, 2) else None
    cli_tag = gen_msg(d, True) if d.chance(1, 3) else None
    return {"names": names, "cfg_commit": cfg_commit, "cfg_tag": cfg_tag, "cli_commit": cli_commit, "cli_tag": cli_tag,
            "vcs": d.choice(["git", "git", "hg"]), "empty_tag_message": d.chance(1, 6),
            # --tag-message '' on the command line: a lightweight tag, whatever the config says
            "cli_empty_tag": d.chance(1, 8)}


def substitute(template, cli):
    """own placeholder substitution (not str.format)"""
    s = template
    if cli:
        s = re.sub(r"(?<![0-9A-Za-z_])(OLD|NEW)(?![0-9A-Za-z_])", lambda m: "{%s_VERSION}" % m.group(1), s)
    for k, v in (("{new_version_pep440}", NEWP), ("{old_version_pep440}", OLDP), ("{new_version}", NEW), ("{old_version}", OLD),
                 ("{NEW_VERSION}", NEW), ("{OLD_VERSION}", OLD)):
        s = s.replace(k, v)
    return s


def build_real(d):
    case = build(d)
    case["vcs"] = "git"
    case["names"] = [n for n in case["names"] if not n.startswith("-")] or ["a.txt"]
    return case


def usable_cfg(msg):
    return msg is None or (msg == msg.strip("'\" ") and msg != "")


def word_boundary_safe(msg):
    """OLD/NEW must stand alone: no adjacent word character (Python's \\b is Unicode aware)"""
    for m in re.finditer(r"OLD|NEW", msg):
        a = msg[m.start() - 1] if m.start() > 0 else " "
        b = msg[m.end()] if m.end() < len(msg) else " "
        if re.match(r"\w", a) or re.match(r"\w", b):
            return False
    return True


def set_up(case, tmp):
    options = {"commit": True, "tag": True, "push": False}
    if case["cfg_commit"] is not None:
        options["commit_message"] = case["cfg_commit"]
    if case["cfg_tag"] is not None:
        options["tag_message"] = case["cfg_tag"]
    if case["empty_tag_message"]:
        options["tag_message"] = ""
    files = [[nm, ["ver <{version}>"]] for nm in case["names"]]
    projgen.write_file(tmp, "bumpver.toml", projgen.toml_config({"current_version": OLD, "version_pattern": "vYYYY.BUILD[-TAG]",
                                                                  "options": options, "files": files}))
    for nm in case["names"]:
        projgen.write_file(tmp, nm, "ver <%s>\n" % OLD)
    args = ["update", "--no-fetch", "--date", "2020-06-01"]
    if case["cli_commit"] is not None:
        args += ["-c", case["cli_commit"]]
    if case.get("cli_empty_tag"):
        args += ["--tag-message", ""]
    elif case["cli_tag"] is not None and not case["empty_tag_message"]:
        args += ["--tag-message", case["cli_tag"]]
    return args


def expected_messages(case):
    if case["cli_commit"] is not None:
        cm = substitute(case["cli_commit"], True)
    elif case["cfg_commit"] is not None:
        cm = substitute(case["cfg_commit"], False)
    else:
        cm = "bump version to " + NEW
    if case.get("cli_empty_tag"):
        tm = ""
    elif case["empty_tag_message"]:
        tm = ""
    elif case["cli_tag"] is not None:
        tm = substitute(case["cli_tag"], True)
    elif case["cfg_tag"] is not None:
        tm = substitute(case["cfg_tag"], False)
    else:
        tm = NEW
    return cm, tm


def sound(case):
    if not usable_cfg(case["cfg_commit"]) or not usable_cfg(case["cfg_tag"]):
        return "config-value-would-be-stripped"
    for m in (case["cli_commit"], case["cli_tag"]):
        if m is not None and not word_boundary_safe(m):
            return "old-new-not-standalone"
        if m is not None and m.startswith("-") and False:
            return None
    for m in (case["cfg_commit"], case["cfg_tag"]):
        if m is not None and re.search(r"(?<![0-9A-Za-z_{])(OLD|NEW)(?![0-9A-Za-z_}])", m) and False:
            return None
    return None


def nontrivial(case):
    vals = [v for v in (case["cfg_commit"], case["cfg_tag"], case["cli_commit"], case["cli_tag"]) if v] + case["names"]
    return any(re.search(r"['\"\\ $`\n]", v) or v.startswith("-") for v in vals)


def check_fake(case):
    why = sound(case)
    if why:
        return discard(why)
    tmp = tempfile.mkdtemp(prefix="c12_")
    fvdir = tempfile.mkdtemp(prefix="c12fv_")
    nt = nontrivial(case)
    try:
        args = set_up(case, tmp)
        vcs = case["vcs"]
        fv = fakevcs.FakeVCS(tmp, vcs, state_dir=fvdir)
        fv.set("status", "")
        r = bv.run(args, cwd=tmp, env=fv.env())
        recs = [rec for rec in fv.records() if fakevcs.kind_of(rec) in fakevcs.MUTATING]
        cm, tm = expected_messages(case)
        paths = set(case["names"]) | {"bumpver.toml"}
        if vcs == "git":
            want = [["git", "add", "--update", p] for p in sorted(paths)] + [["git", "commit", "--message", cm]]
            want.append(["git", "tag", "--annotate", NEW, "--message", tm] if tm else ["git", "tag", NEW])
        else:
            want = [["hg", "add", p] for p in sorted(paths)] + [["hg", "commit", "--logfile", "<tmp>", "LOGFILE-CONTENT", cm + "x"]]
            want.append(["hg", "tag", NEW, "--message", tm] if tm else ["hg", "tag", NEW])
        got = []
        adds = sorted([rec for rec in recs if rec[1] == "add"])
        got += adds
        for rec in recs:
            if rec[1] == "add":
                continue
            if vcs == "hg" and rec[1] == "commit" and len(rec) >= 4:
                rec = rec[:3] + ["<tmp>"] + rec[4:]
            got.append(rec)
        detail = {"args": args, "case": case, "expected_argv": want, "observed_argv": got, "exit": r.exit, "exc": r.exc, "stderr": r.err[-500:]}
        sig = {"vcs": vcs}
        if got != want:
            which = "add" if [g for g in got if g[1] == "add"] != [w for w in want if w[1] == "add"] else \
                "commit" if [g for g in got if g[1] == "commit"] != [w for w in want if w[1] == "commit"] else "tag"
            if r.crashed and "No closing quotation" in (r.exc or ""):
                return viol("quote-in-value-breaks-command-line:" + which, dict(sig, which=which), detail, nt=nt, classes=(vcs,))
            return viol("argv-differs:" + which, dict(sig, which=which), detail, nt=nt, classes=(vcs,))
        if r.exit != 0:
            return viol("update-fails-although-argv-complete", sig, detail, nt=nt, classes=(vcs,))
        return ok(nt=nt, classes=(vcs,))
    finally:
        shutil.rmtree(tmp, ignore_errors=True)
        shutil.rmtree(fvdir, ignore_errors=True)


def git_cleanup(msg, strip_comments=False):
    """git's default clean-up for -m messages: strip trailing whitespace per line, leading and trailing empty lines,
    collapse consecutive empty lines (commit: --cleanup=whitespace); `git tag` additionally drops lines that start
    with '#' (its default --cleanup=strip)"""
    lines = [ln.rstrip() for ln in msg.split("\n")]
    if strip_comments:
        lines = [ln for ln in lines if not ln.startswith("#")]
    out = []
    for ln in lines:
        if ln == "" and (not out or out[-1] == ""):
            continue
        out.append(ln)
    while out and out[-1] == "":
        out.pop()
    return "\n".join(out)


def check_real(case):
    why = sound(case)
    if why:
        return discard(why)
    if case["vcs"] != "git":
        return discard("real-git-only")
    cm, tm = expected_messages(case)
    if git_cleanup(cm).strip() == "" or (tm and git_cleanup(tm, True).strip() == ""):
        return discard("message-empty-after-git-cleanup")
    if any(nm.startswith("-") for nm in case["names"]):
        return discard("path-starting-with-dash-is-an-option-for-real-git")
    tmp = tempfile.mkdtemp(prefix="c12r_")
    nt = nontrivial(case)
    try:
        args = set_up(case, tmp)
        gitbox.init(tmp)
        base = gitbox.head(tmp)
        env = dict(gitbox.env(tmp))
        r = bv.run(args, cwd=tmp, env=env)
        detail = {"args": args, "case": case, "exit": r.exit, "exc": r.exc, "stderr": r.err[-500:]}
        if r.exit != 0:
            return viol("real-git-update-fails", {"vcs": "real-git"}, detail, nt=nt)
        n_new = gitbox.commit_count(tmp) - 1
        body = gitbox.git(tmp, "log", "-1", "--format=%B")
        body = body[:-1] if body.endswith("\n") else body
        author = gitbox.git(tmp, "log", "-1", "--format=%an <%ae>").strip()
        names = sorted(x for x in gitbox.git(tmp, "show", "--name-only", "--format=", "-z", "HEAD").split("\0") if x)
        tag_names = gitbox.tags(tmp)
        detail.update(commits_added=n_new, message=body, author=author, paths=names, tags=tag_names)
        if n_new != 1 or git_cleanup(body) != git_cleanup(cm):
            return viol("real-git:commit-message-differs", {"vcs": "real-git"}, dict(detail, expected=git_cleanup(cm)), nt=nt)
        if author != "Verif <verif@example.org>":
            return viol("real-git:commit-metadata-altered", {"vcs": "real-git"}, detail, nt=nt)
        if names != sorted(set(case["names"]) | {"bumpver.toml"}):
            return viol("real-git:committed-paths-differ", {"vcs": "real-git"}, detail, nt=nt)
        if tag_names != [NEW]:
            return viol("real-git:tag-name-differs", {"vcs": "real-git"}, detail, nt=nt)
        if tm:
            tbody = gitbox.git(tmp, "tag", "-l", "--format=%(contents)", NEW)
            tbody = tbody[:-1] if tbody.endswith("\n") else tbody
            if git_cleanup(tbody, True) != git_cleanup(tm, True):
                return viol("real-git:tag-message-differs", {"vcs": "real-git"}, dict(detail, tag_message=tbody, expected=git_cleanup(tm, True)), nt=nt)
        return ok(nt=nt, classes=("real-git",))
    finally:
        shutil.rmtree(tmp, ignore_errors=True)


PARTS = [
    Part("fake-vcs-argv", check=check_fake, strategy=lambda: dp.cases(build, size=96), n={"quick": 12000, "thorough": 300000}, max_discard=0.1),
    Part("real-git", check=check_real, strategy=lambda: dp.cases(build_real, size=96), n={"quick": 300, "thorough": 6000}, max_discard=0.3),
]

MANIFEST = {
    "text": "Generated message templates and file names full of shell-significant characters; the argv received by fake git/hg "
            "executables is compared argument by argument with the expected command lines; a sample runs against real git and "
            "compares commit message, tag name/message, committed paths and author.",
    "note": "hg only through the fake (argv level). Real git applies its whitespace clean-up to messages; the comparison is "
            "made modulo that documented clean-up. Braces other than documented placeholders are excluded.",
    "technique": "property-based testing (Hypothesis) with a construction oracle over the logged argv; differential sample with real git",
}
