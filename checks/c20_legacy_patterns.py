"""C20 - legacy {...} patterns render, read back and increase consistently."""
import os
import re
import shutil
import logging
import tempfile
import datetime as dt

from harness.core import Part, ok, viol, discard
from harness import fuzz, dp, bv, projgen, pep440ref

from bumpver import version as bv_version
from bumpver import v1version, v1patterns, config as bv_config

ID = "C20"
LEVEL = "exploration"
RULE = ("Legacy brace patterns: {pycalver}, {semver}, the documented composites (v{year}{month}{build}{release}, "
        "{year}{build}{release}, ...) and generated combinations: optional 'v' + a date head ({year} {yy} {month} {month_short} "
        "{dom} {dom_short} {doy} {doy_short} {quarter} in sensible orders, '.' '-' 'q' or glued fixed-width parts) + counters "
        "({MAJOR} {MINOR} {PATCH} {MM} {PPP} {build} {bid} {BID} {build_no} {BBBB}) + {release} / -{tag}. A (exhaustive over "
        "dates: every day 2000-01-01..2099-12-31 striped over the generated patterns in the thorough tier, every 7th day in "
        "quick): render with v1version.format_version, the text must be matched IN FULL by the compiled pattern, read back by "
        "parse_version_info with every part equal, and re-render identically. B (Hypothesis): `bumpver test OLD P flags --date "
        "D`: the result is greater than OLD in the reference order and, for {pycalver}, as a plain string; chains of 1,000 "
        "bumps. C: a project with a {version} and a {pep440_version} line: `update` announces the same version as `test`, the "
        "loader reports a legacy pattern, the pep text is PEP 440-equal to the version and is found again by a second `update`; "
        "without --tag the legacy engine itself (before the gate) never returns a lower version. Non-trivial: pattern has >= 3 parts.")
ASSUME = ["week parts ({iso_week}, {us_week}) are not in the property's list and are not generated",
          "years 2000..2099 (two-digit {yy})", "reference order harness/pep440ref.py"]

COMPOSITES = ["{pycalver}", "{semver}", "v{year}{month}{build}{release}", "{year}{month}{build}{release}", "v{year}{build}{release}",
              "{year}{build}{release}"]
HEADS = ["{year}", "{yy}", "{year}.{month}", "{year}.{month_short}", "{year}{month}", "{year}.{month}.{dom}", "{year}.{month_short}.{dom_short}",
         "{year}{month}{dom}", "{year}-{doy}", "{year}.{doy_short}", "{year}q{quarter}", "{yy}.{month}", "{year}.{month}.{dom_short}", "{yy}{month}"]
COUNTERS = ["", ".{MAJOR}", ".{MINOR}.{PATCH}", ".{MAJOR}.{MM}.{PPP}", "{build}", ".{bid}", ".{BID}", ".{build_no}", ".{BBBB}", ".{PATCH}"]
RELEASES = ["", "{release}", "-{tag}", "{release}"]
FIELD_OF = {"year": "year", "yy": "year", "month": "month", "month_short": "month", "dom": "dom", "dom_short": "dom", "doy": "doy",
            "doy_short": "doy", "quarter": "quarter", "MAJOR": "major", "MINOR": "minor", "PATCH": "patch", "MM": "minor", "PPP": "patch",
            "build": "bid", "bid": "bid", "BID": "bid", "build_no": "bid", "BBBB": "bid", "release": "tag", "tag": "tag",
            "pycalver": None, "semver": None}
INT_BID = {"BID", "BBBB"}


def all_patterns():
    pats = list(COMPOSITES)
    for v in ("", "v"):
        for h in HEADS:
            for c in COUNTERS:
                for r in RELEASES:
                    if r and not c and h in ("{year}", "{yy}"):
                        continue
                    p = v + h + c + r
                    if p not in pats:
                        pats.append(p)
    return pats


PATTERNS = all_patterns()


def parts_in(pattern):
    return re.findall(r"\{([A-Za-z_]+)\}", pattern)


def fields_in(pattern):
    names = parts_in(pattern)
    if "pycalver" in names:
        return ["year", "month", "bid", "tag"], False
    if "semver" in names:
        return ["major", "minor", "patch"], False
    fields = []
    for n in names:
        f = FIELD_OF.get(n)
        if f and f not in fields:
            fields.append(f)
    return fields, any(n in INT_BID for n in names)


def make_vinfo(date, major, minor, patch, bid, tag):
    ci = v1version.cal_info(date)
    return bv_version.V1VersionInfo(year=ci.year, quarter=ci.quarter, month=ci.month, dom=ci.dom, doy=ci.doy, iso_week=ci.iso_week,
                                    us_week=ci.us_week, major=major, minor=minor, patch=patch, bid=bid, tag=tag)


def roundtrip(pattern, vinfo):
    """-> None | (bucket, sig, detail)"""
    names = parts_in(pattern)
    try:
        text = v1version.format_version(vinfo, pattern)
    except Exception as ex:
        return ("render-raises", {"exc": type(ex).__name__}, {"pattern": pattern, "exc": repr(ex)})
    rx = v1patterns.compile_pattern(pattern).regexp
    m = rx.match(text)
    detail = {"pattern": pattern, "text": text, "regex": rx.pattern}
    if m is None:
        culprit = next((n for n in ("doy_short", "dom_short", "month_short", "BBBB", "BID", "yy") if n in names), names[0] if names else "?")
        return ("render-not-recognised:" + culprit, {"part": culprit}, detail)
    if m.end() != len(text):
        culprit = next((n for n in ("dom_short", "doy_short", "month_short") if n in names), "?")
        return ("recogniser-covers-only-a-prefix:" + culprit, {"part": culprit}, dict(detail, matched=m.group(0)))
    try:
        back = v1version.parse_version_info(text, pattern)
    except Exception as ex:
        return ("reader-raises", {"exc": type(ex).__name__}, dict(detail, exc=repr(ex)))
    fields, int_bid = fields_in(pattern)
    for f in fields:
        a, b = getattr(vinfo, f), getattr(back, f)
        if f == "bid" and int_bid:
            a, b = int(a), int(b)
        if f == "year" and "yy" in names and "year" not in names:
            a = a % 100 + 2000
        if a != b:
            return ("part-reads-back-different:" + f, {"field": f}, dict(detail, field=f, rendered=a, read=b))
    again = v1version.format_version(back, pattern)
    if again != text:
        return ("rerender-differs", {}, dict(detail, again=again))
    # calendar parts that the carried ones determine (year + day of year -> month, day, quarter; month -> quarter) are what
    # other search patterns of the same project ({year}-Q{quarter}, ...) are rendered from: they must read back as well
    determined = []
    if "year" in fields and "doy" in fields:
        determined = ["month", "dom", "quarter"]
    elif "month" in fields:
        determined = ["quarter"]
    for f in determined:
        if getattr(back, f, None) != getattr(vinfo, f, None):
            return ("derived-calendar-part-reads-back-different:" + f, {"field": f},
                    dict(detail, field=f, rendered_from=getattr(vinfo, f, None), read=getattr(back, f, None)))
    return None


def sweep_domain(tier):
    step = 1 if tier == "thorough" else 7
    return [{"pattern_index": i, "step": step} for i in range(len(PATTERNS))]


def check_sweep(case):
    pattern = PATTERNS[case["pattern_index"]]
    i = case["pattern_index"]
    out = ok()
    n = nt_n = 0
    seen = set()
    d = dt.date(2000, 1, 1) + dt.timedelta(days=i % case["step"])
    end = dt.date(2099, 12, 31)
    nparts = len(parts_in(pattern))
    int_bid_pattern = fields_in(pattern)[1]  # {BID}/{BBBB} versions carry no leading zeros (and BBBB at least 4 digits)
    k = 0
    while d <= end:
        k += 1
        bids = ["1001", "1033", "1999", "22000", "9998"] if int_bid_pattern else ["1001", "0033", "1999", "22000", "0999"]
        vinfo = make_vinfo(d, major=k % 3, minor=(k * 7) % 12, patch=(k * 13) % 101, bid=bids[k % 5],
                           tag=["final", "alpha", "beta", "rc", "dev", "post"][k % 6])
        n += 1
        if nparts >= 3:
            nt_n += 1
        bad = roundtrip(pattern, vinfo)
        if bad:
            key = (bad[0], tuple(sorted(bad[1].items())))
            if key not in seen:
                seen.add(key)
                out.more.append((bad[0], bad[1], dict(bad[2], date=d.isoformat())))
        d += dt.timedelta(days=case["step"])
    out.n, out.nt_n, out.nt = n, nt_n, True
    return out


# ------------------------------------------------------------------ B: bumps through the CLI

TAGS = ["alpha", "beta", "rc", "dev", "post", "final"]
STEPS = [0]  # successful chain steps of the last check_b call (read by check_chain)


def build_b(d):
    pattern = d.choice(COMPOSITES) if d.chance(1, 3) else d.choice(PATTERNS)
    date = dt.date(2000, 1, 1) + dt.timedelta(days=d.int(0, 36000))
    vals = {"major": d.choice([0, 1, 9, 10]), "minor": d.choice([0, 3, 9, 99]), "patch": d.choice([0, 1, 9, 99, 100]),
            "bid": d.choice(["1001", "0033", "1999", "22000", "0999", "9998", "1009"]), "tag": d.choice(TAGS)}
    off = d.choice([0, 0, 1, 31, 366, -1, -400])
    names = parts_in(pattern)
    if fields_in(pattern)[1]:
        vals["bid"] = d.choice(["1001", "1033", "1999", "22000", "9998"])
    flags = {"major": "MAJOR" in names and d.chance(1, 3) or "semver" in names and d.chance(1, 4),
             "minor": ("MINOR" in names or "MM" in names or "semver" in names) and d.chance(1, 3),
             "patch": ("PATCH" in names or "PPP" in names or "semver" in names) and d.chance(1, 2),
             "tag": d.choice(TAGS) if d.chance(1, 4) and ("release" in names or "tag" in names or "pycalver" in names) else None,
             "pin_date": d.chance(1, 8)}
    return {"pattern": pattern, "date": date.isoformat(), "vals": vals, "offset": off, "flags": flags, "chain": d.chance(1, 200)}


def run_test(old, pattern, flags, date):
    args = ["test", old, pattern] + bv.flag_args(dict(flags, date=None if flags.get("pin_date") else date.isoformat()))
    return args, bv.run(args, today=date)


def check_b(case):
    pattern = case["pattern"]
    names = parts_in(pattern)
    date = dt.date.fromisoformat(case["date"])
    v = case["vals"]
    vinfo = make_vinfo(date, v["major"], v["minor"], v["patch"], v["bid"], v["tag"])
    if roundtrip(pattern, vinfo):
        return discard("start-version-does-not-round-trip (reported by part A)")
    old = v1version.format_version(vinfo, pattern)
    new_date = min(max(date + dt.timedelta(days=case["offset"]), dt.date(2000, 1, 1)), dt.date(2099, 12, 31))
    nt = len(names) >= 3 or pattern in COMPOSITES
    steps = 1000 if case["chain"] else 1
    cur = old
    flags = dict(case["flags"])
    classes = ["chain" if case["chain"] else "single"]
    if not flags.get("tag"):
        # what the legacy engine returns BEFORE the CLI gate: without a tag change nothing can legitimately make the
        # version smaller (BUILD grows, calendar parts never move backwards), so a lower result is a defect that the
        # gate merely turns into a refused bump
        bv_version.TODAY = new_date
        logging.disable(logging.CRITICAL)
        try:
            raw = v1version.incr(old, pattern, major=bool(flags["major"]), minor=bool(flags["minor"]), patch=bool(flags["patch"]),
                                 pin_date=bool(flags.get("pin_date")), maybe_date=new_date)
        except OverflowError:
            raw = None
        except Exception as ex:
            return viol("incr-raises", {"exc": type(ex).__name__}, {"pattern": pattern, "old": old, "exc": repr(ex)}, nt=nt)
        finally:
            logging.disable(logging.NOTSET)
        if raw is not None and not pep440ref.key(raw) > pep440ref.key(old):
            return viol("engine-moves-version-backwards", {}, {"pattern": pattern, "old": old, "date": new_date.isoformat(), "flags": flags, "result": raw}, nt=nt)
    for i in range(steps):
        args, r = run_test(cur, pattern, flags, new_date)
        if r.crashed:
            if "max lexical version reached" in (r.exc or ""):
                return ok(nt=False, classes=("build-id-at-documented-maximum",))
            return viol("test-crashes", {"exc": (r.exc or "")[:50]}, {"args": args, "res": r.summary()}, nt=nt)
        if r.exit != 0:
            classes.append("declined")
            return ok(nt=False, classes=tuple(classes))
        N = r.new_version
        detail = {"args": args, "old": cur, "new": N, "step": i}
        if not pep440ref.key(N) > pep440ref.key(cur):
            return viol("result-not-greater-than-input", {"pattern_kind": "composite" if pattern in COMPOSITES else "generated"}, detail, nt=nt)
        if pattern == "{pycalver}" and not N > cur:
            return viol("pycalver-result-not-greater-as-string", {}, detail, nt=nt)
        if v1patterns.compile_pattern(pattern).regexp.fullmatch(N) is None:
            return viol("result-not-matched-in-full-by-its-pattern", {}, detail, nt=nt)
        cur = N
        STEPS[0] = i + 1
        if case["chain"]:
            new_date = min(new_date + dt.timedelta(days=[0, 0, 1, 40][i % 4]), dt.date(2099, 12, 31))
            flags = dict(flags, tag=None)
    return ok(nt=nt, classes=tuple(classes))


def chain_domain(tier):
    out = []
    for pattern in ["{pycalver}", "v{year}{build}{release}", "{year}.{BID}", "{semver}", "{year}.{month}.{bid}-{tag}", "v{year}{month}{build}{release}"]:
        for bid in ["1001", "1990", "9000", "0990", "19990", "0001", "29000"]:
            if "{BID}" in pattern and bid.startswith("0"):
                continue
            out.append({"pattern": pattern, "date": "2001-02-03", "vals": {"major": 1, "minor": 2, "patch": 3, "bid": bid, "tag": "beta"},
                        "offset": 0, "flags": {"major": False, "minor": False, "patch": pattern == "{semver}", "tag": None, "pin_date": False},
                        "chain": True})
    return out


def check_chain(case):
    STEPS[0] = 0
    o = check_b(case)
    o.n = max(1, STEPS[0])
    o.nt_n = STEPS[0]
    return o


# ------------------------------------------------------------------ C: engine consistency and derived pep440 text


def check_c(case):
    pattern = case["pattern"]
    if pattern not in COMPOSITES:
        pattern = COMPOSITES[len(pattern) % len(COMPOSITES)]
    date = dt.date.fromisoformat(case["date"])
    v = case["vals"]
    vinfo = make_vinfo(date, v["major"], v["minor"], v["patch"], v["bid"], v["tag"])
    if roundtrip(pattern, vinfo):
        return discard("start-version-does-not-round-trip")
    old = v1version.format_version(vinfo, pattern)
    new_date = min(max(date + dt.timedelta(days=case["offset"]), dt.date(2000, 1, 1)), dt.date(2099, 12, 31))
    flags = dict(case["flags"])
    if pattern == "{semver}" and not (flags["major"] or flags["minor"] or flags["patch"]):
        flags["patch"] = True
    logging.disable(logging.CRITICAL)
    try:
        old_pep = v1version.format_version(vinfo, v1patterns._normalized_pattern(pattern, "{pep440_version}"))
    finally:
        logging.disable(logging.NOTSET)
    tmp = tempfile.mkdtemp(prefix="c20_")
    try:
        spec = {"current_version": old, "version_pattern": pattern, "files": [["f.txt", ['ver="{version}"', "pep='{pep440_version}'"]]]}
        projgen.write_file(tmp, "bumpver.toml", projgen.toml_config(spec))
        projgen.write_file(tmp, "f.txt", 'x ver="%s"\nand pep=\'%s\' y\n' % (old, old_pep))
        cwd0 = os.getcwd()
        os.chdir(tmp)
        logging.disable(logging.CRITICAL)
        try:
            _ctx, cfg = bv_config.init(project_path=".")
        finally:
            logging.disable(logging.NOTSET)
            os.chdir(cwd0)
        detail = {"pattern": pattern, "old": old, "old_pep": old_pep}
        if cfg is None:
            return viol("loader-rejects-legacy-configuration", {}, detail)
        if cfg.is_new_pattern:
            return viol("loader-treats-legacy-pattern-as-new", {}, detail)
        args_t, rt = run_test(old, pattern, flags, new_date)
        fa = bv.flag_args(dict(flags, date=None if flags.get("pin_date") else new_date.isoformat()))
        ru = bv.run(["update", "--no-fetch"] + fa, cwd=tmp, today=new_date)
        detail.update(test=rt.summary(300), update=ru.summary(300), args=fa)
        if (rt.exit == 0) != (ru.exit == 0) or (rt.exit == 0 and rt.new_version != ru.new_version):
            return viol("test-and-update-disagree", {}, detail)
        if ru.exit != 0:
            return ok(nt=False, classes=("declined",))
        N = ru.new_version
        with open(os.path.join(tmp, "f.txt"), encoding="utf-8") as f:
            text = f.read()
        mv = re.search(r'ver="([^"]*)"', text)
        mp = re.search(r"pep='([^']*)'", text)
        if not mv or mv.group(1) != N:
            return viol("file-does-not-hold-announced-version", {}, dict(detail, file=text, announced=N))
        T = mp.group(1) if mp else None
        vN, vT = pep440ref.pep440(N), pep440ref.pep440(T or "")
        if vN is not None and (vT is None or vT != vN):
            return viol("pep440-text-not-equal-to-version", {"pattern": pattern}, dict(detail, announced=N, pep_text=T))
        # the derived search pattern must accept what was just written: a second update finds it again
        later = min(new_date + dt.timedelta(days=40), dt.date(2099, 12, 31))
        r2 = bv.run(["update", "--no-fetch", "--date", later.isoformat()] + (["--patch"] if pattern == "{semver}" else []), cwd=tmp, today=later)
        if r2.exit != 0 and "No match for pattern" in r2.err:
            return viol("derived-pattern-rejects-text-bumpver-renders", {"pattern": pattern}, dict(detail, announced=N, pep_text=T, second=r2.summary(500)))
        return ok(nt=True, classes=("consistent", "second-update-ok" if r2.exit == 0 else "second-update-declined"))
    finally:
        shutil.rmtree(tmp, ignore_errors=True)


PARTS = [
    Part("A-render-read-sweep", check=check_sweep, domain=sweep_domain, exhaustive=lambda tier: tier == "thorough"),
    Part("B-bumps", check=check_b, strategy=lambda: dp.cases(build_b, size=64), n={"quick": 16000, "thorough": 400000}, max_discard=0.5),
    fuzz.fuzz_part("B-coverage-guided", build_b, check_b, size=64, runs={"quick": 6000, "thorough": 160000}, max_discard=0.6),
    Part("D-chains", check=check_chain, domain=chain_domain, exhaustive=lambda tier: False),
    Part("C-engine-consistency", check=check_c, strategy=lambda: dp.cases(build_b, size=64), n={"quick": 3000, "thorough": 60000}, max_discard=0.5),
]

MANIFEST = {
    "text": "Round-trip sweep of %d legacy patterns over the days 2000..2099 (all days in the thorough tier), generated bumps and "
            "1,000-step chains through `bumpver test` judged by the reference order (and plain string order for {pycalver}), and "
            "a project-level differential between `test`, `update` and the config loader incl. the derived PEP 440 text." % len(PATTERNS),
    "note": "The render/read oracle is a round trip through bumpver's own legacy functions plus a full-match requirement; week "
            "parts are outside the property's list.",
    "technique": "exhaustive date sweep + property-based testing (Hypothesis); round-trip and differential oracles; plus coverage-guided fuzzing (atheris/libFuzzer) of the same byte decoder and oracle",
}
