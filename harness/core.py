"""Runner core: parts, collectors, sharding, known findings, replay, evidence.

See DESIGN.md section 2.  Every check module in checks/ exposes

    ID      = "C16"
    LEVEL   = "exploration"
    RULE    = "how cases are generated and what makes one non-trivial"
    ASSUME  = [...]                      # assumptions / trusted base
    PARTS   = [Part(...), ...]
    def selftest(): ...                  # optional; raise HarnessError on failure

A Part couples a case source (Hypothesis strategy or enumerated domain) with a
pure function  check(case) -> Out.  Cases are JSON-serialisable so that every
violation can be written to a replay file and re-run without Hypothesis.
"""
import os
import sys
import json
import time
import hashlib
import traceback
import importlib
import collections
import multiprocessing as mp

VERIF = os.path.dirname(os.path.dirname(os.path.abspath(__file__)))
BUMPVER_SRC = os.environ.get("BUMPVER_SRC", "/repo/src")
if sys.path[0] != BUMPVER_SRC:
    sys.path.insert(0, BUMPVER_SRC)
if VERIF not in sys.path:
    sys.path.insert(1, VERIF)

NSHARDS = int(os.environ.get("VERIF_SHARDS", "16"))
OUT = os.environ.get("VERIF_OUT", VERIF)  # evidence/ and replays/ go here (mutation runs redirect it)


class HarnessError(Exception):
    """Something is wrong with the machinery, not with bumpver (exit 2)."""


# --------------------------------------------------------------------------- outcomes


class Out:
    __slots__ = ("nt", "classes", "bucket", "sig", "detail", "discard", "n", "nt_n", "more")

    def __init__(self, nt=False, classes=(), bucket=None, sig=None, detail=None, discard=None, n=1, nt_n=None):
        self.n = n  # number of evaluations this case stands for (a case may sweep a sub-domain)
        self.nt_n = nt_n  # ... and how many of them were distinct and non-trivial (enumerated domains)
        self.more = []  # further violations found while sweeping the same case: [(bucket, sig, detail)]
        self.nt = nt
        self.classes = classes
        self.bucket = bucket
        self.sig = sig or {}
        self.detail = detail
        self.discard = discard


def ok(nt=False, classes=(), n=1, nt_n=None):
    return Out(nt=nt, classes=classes, n=n, nt_n=nt_n)


def viol(bucket, sig=None, detail=None, nt=True, classes=(), n=1, nt_n=None):
    return Out(nt=nt, classes=classes, bucket=bucket, sig=sig, detail=detail, n=n, nt_n=nt_n)


def discard(reason):
    return Out(discard=reason)


# --------------------------------------------------------------------------- parts


class Part:
    """kind='hyp': strategy() -> SearchStrategy of JSON-able cases, n = {'quick':..,'thorough':..}
    kind='enum': domain(tier) -> object with __len__/__getitem__ (or list); exhaustive(tier) -> bool
    kind='custom': run(tier, seed, k, nshards, collector) does everything itself."""

    def __init__(self, name, check=None, strategy=None, n=None, domain=None, exhaustive=None,
                 run=None, max_discard=0.05, shards=None, shrink=True):
        self.name = name
        self.check = check
        self.strategy = strategy
        self.n = n
        self.domain = domain
        self.exhaustive = exhaustive or (lambda tier: False)
        self.run = run
        self.max_discard = max_discard
        self.shards = shards
        self.shrink = shrink
        self.kind = "custom" if run else ("hyp" if strategy else "enum")


def all_viols(out):
    return ([(out.bucket, out.sig, out.detail)] if out.bucket is not None else []) + list(out.more)


def digest(case):
    s = json.dumps(case, sort_keys=True, default=str, ensure_ascii=True)
    return int.from_bytes(hashlib.blake2b(s.encode(), digest_size=8).digest(), "big")


class Collector:
    MAX_SAMPLES = 4

    def __init__(self, prop, part, known):
        self.prop = prop
        self.part = part
        self.known = known
        self.evaluations = 0
        self.nt = set()
        self.swept = set()
        self.nt_enum = 0  # distinct by construction (enumerated domains)
        self.classes = collections.Counter()
        self.samples = []
        self.violations = {}  # bucket -> dict
        self.excluded_known = collections.Counter()
        self.discards = collections.Counter()
        self.extra = {}

    def record(self, case, out, distinct_by_construction=False):
        if out.discard:
            self.discards[out.discard] += 1
            return
        self.evaluations += out.n
        for c in out.classes:
            if isinstance(c, tuple):
                self.classes[c[0]] += c[1]
            else:
                self.classes[c] += 1
        if out.nt or out.nt_n:
            if distinct_by_construction:
                self.nt_enum += out.nt_n if out.nt_n is not None else 1
            elif out.nt_n is not None:
                # a generated case that sweeps a sub-domain: its non-trivial members count once per distinct case
                dg = digest(case)
                if dg not in self.swept:
                    self.swept.add(dg)
                    self.nt_enum += out.nt_n
            else:
                self.nt.add(digest(case))
            if len(self.samples) < self.MAX_SAMPLES:
                self.samples.append(case)
        for bucket, sig, detail in all_viols(out):
            kf = self.known.match(self.prop, bucket, sig or {})
            if kf is not None:
                self.excluded_known[kf["id"]] += 1
                continue
            v = self.violations.get(bucket)
            size = len(json.dumps(case, default=str))
            if v is None:
                self.violations[bucket] = {
                    "bucket": bucket, "sig": sig or {}, "detail": detail, "case": case,
                    "count": 1, "size": size, "part": self.part,
                }
            else:
                v["count"] += 1
                if size < v["size"]:
                    v.update(case=case, sig=sig or {}, detail=detail, size=size)

    def load(self, d):
        """take over the content of a collector that ran in a child process (fuzz parts)"""
        self.evaluations += d["evaluations"]
        self.nt.update(d["nt"])
        self.nt_enum += d["nt_enum"]
        self.classes.update(d["classes"])
        self.samples.extend(d["samples"][: self.MAX_SAMPLES - len(self.samples)])
        self.violations.update(d["violations"])
        self.excluded_known.update(d["excluded_known"])
        self.discards.update(d["discards"])
        self.extra.update(d["extra"])

    def to_dict(self):
        return {
            "evaluations": self.evaluations, "nt": sorted(self.nt), "nt_enum": self.nt_enum,
            "classes": dict(self.classes), "samples": self.samples, "violations": self.violations,
            "excluded_known": dict(self.excluded_known), "discards": dict(self.discards),
            "extra": self.extra,
        }


def shard_seed(seed, prop, part, k):
    h = hashlib.sha256(f"{seed}:{prop}:{part}:{k}".encode()).hexdigest()
    return int(h[:12], 16)


# --------------------------------------------------------------------------- known findings


class Known:
    def __init__(self, path=None):
        path = path or os.path.join(VERIF, "known_findings.json")
        self.entries = []
        if os.path.exists(path):
            with open(path) as f:
                self.entries = json.load(f)

    def open_for(self, prop):
        return [e for e in self.entries if e["property"] == prop and e["status"] == "open"]

    @staticmethod
    def _match_entry(e, bucket, sig):
        m = e.get("match", {})
        if m.get("bucket") is not None and m["bucket"] != bucket:
            return False
        for key, want in m.get("sig", {}).items():
            have = sig.get(key)
            if isinstance(want, list):
                if have not in want:
                    return False
            elif have != want:
                return False
        return True

    def match(self, prop, bucket, sig):
        for e in self.entries:
            if e["property"] == prop and e["status"] == "open" and self._match_entry(e, bucket, sig):
                return e
        return None


# --------------------------------------------------------------------------- shard execution


def _hyp_settings(n, shrink):
    from hypothesis import settings, HealthCheck, Phase

    phases = [Phase.generate, Phase.shrink] if shrink else [Phase.generate]
    return settings(
        max_examples=n, database=None, deadline=None, derandomize=False, report_multiple_bugs=False,
        phases=phases, suppress_health_check=[HealthCheck.too_slow, HealthCheck.data_too_large,
                                              HealthCheck.large_base_example],
        print_blob=False,
    )


def load_check(prop):
    for fn in sorted(os.listdir(os.path.join(VERIF, "checks"))):
        if fn.lower().startswith(prop.lower() + "_") and fn.endswith(".py"):
            return importlib.import_module("checks." + fn[:-3])
    raise HarnessError(f"no check module for {prop}")


def get_part(mod, name):
    for p in mod.PARTS:
        if p.name == name:
            return p
    raise HarnessError(f"no part {name} in {mod.ID}")


def _safe_check(part, case):
    try:
        return part.check(case)
    except HarnessError:
        raise
    except Exception as ex:  # a bug in the check function itself is a harness error
        raise HarnessError(f"check function raised on case {json.dumps(case, default=str)[:2000]}: "
                           + traceback.format_exc()) from ex


def run_shard(args):
    prop, part_name, tier, seed, k, nshards = args
    try:
        mod = load_check(prop)
        part = get_part(mod, part_name)
        col = Collector(prop, part_name, Known())
        t0 = time.time()
        if part.kind == "custom":
            part.run(tier, shard_seed(seed, prop, part_name, k), k, nshards, col)
        elif part.kind == "enum":
            dom = part.domain(tier)
            for i in range(k, len(dom), nshards):
                case = dom[i]
                col.record(case, _safe_check(part, case), distinct_by_construction=True)
        else:
            import hypothesis
            from hypothesis import given

            n = part.n[tier]
            per = n // nshards + (1 if k < n % nshards else 0)
            if per > 0:
                @hypothesis.seed(shard_seed(seed, prop, part_name, k))
                @_hyp_settings(per, shrink=False)
                @given(part.strategy())
                def explore(case):
                    col.record(case, _safe_check(part, case))

                explore()
        col.extra["wall_s"] = time.time() - t0
        return ("ok", col.to_dict())
    except BaseException:
        return ("err", traceback.format_exc())


class Found(Exception):
    def __init__(self, case):
        super().__init__("found")
        self.case = case


def _shrink_worker(prop, part_name, tier, seed, k, nshards, bucket, q):
    try:
        import hypothesis
        from hypothesis import given

        mod = load_check(prop)
        part = get_part(mod, part_name)
        n = part.n[tier]
        per = n // nshards + (1 if k < n % nshards else 0)
        known = Known()

        @hypothesis.seed(shard_seed(seed, prop, part_name, k))
        @_hyp_settings(per, shrink=True)
        @given(part.strategy())
        def hunt(case):
            out = part.check(case)
            if out.bucket == bucket and known.match(prop, out.bucket, out.sig) is None:
                raise Found(case)

        try:
            hunt()
        except Found as f:
            q.put(f.case)
            return
        q.put(None)
    except BaseException:
        q.put(None)


def shrink_violation(prop, part, tier, seed, k, nshards, bucket, budget_s):
    """Re-run the shard that found `bucket` with shrinking on, in a child with a time limit."""
    q = mp.Queue()
    p = mp.Process(target=_shrink_worker, args=(prop, part.name, tier, seed, k, nshards, bucket, q))
    p.start()
    try:
        res = q.get(timeout=budget_s)
    except Exception:
        res = None
    p.join(timeout=1)
    if p.is_alive():
        p.terminate()
        p.join()
    return res


# --------------------------------------------------------------------------- main driver


def write_replay(prop, part_name, v):
    d = os.path.join(OUT, "replays", prop)
    os.makedirs(d, exist_ok=True)
    body = {"property": prop, "part": part_name, "bucket": v["bucket"], "sig": v["sig"],
            "detail": v["detail"], "case": v["case"]}
    name = hashlib.sha256(json.dumps(body, sort_keys=True, default=str).encode()).hexdigest()[:16]
    path = os.path.join(d, name + ".json")
    with open(path, "w") as f:
        json.dump(body, f, indent=1, sort_keys=True, default=str)
    return os.path.relpath(path, OUT)


def replay_file(prop, path, quiet=False):
    """Run one saved case through its part's check, bypassing Hypothesis. Returns Out."""
    mod = load_check(prop)
    with open(path) as f:
        body = json.load(f)
    part = get_part(mod, body["part"])
    out = _safe_check(part, body["case"])
    if not quiet:
        if not all_viols(out):
            print(f"replay {path}: no violation")
        for bucket, sig, detail in all_viols(out):
            print(f"replay {path}: bucket={bucket} sig={json.dumps(sig, default=str)}")
            print(f"  detail: {json.dumps(detail, default=str)[:3000]}")
    return out, body


def run_check(prop, tier, seed):
    """all scratch directories of a run live under one run-specific directory that is removed at the end, also when
    a shrinking child had to be terminated (its `finally` clauses do not run then)"""
    import tempfile
    import shutil
    scratch = tempfile.mkdtemp(prefix="bvverif_%s_" % prop)
    old_tmp = (os.environ.get("TMPDIR"), tempfile.tempdir)
    os.environ["TMPDIR"] = scratch
    tempfile.tempdir = scratch
    try:
        return _run_check(prop, tier, seed)
    finally:
        tempfile.tempdir = old_tmp[1]
        if old_tmp[0] is None:
            os.environ.pop("TMPDIR", None)
        else:
            os.environ["TMPDIR"] = old_tmp[0]
        shutil.rmtree(scratch, ignore_errors=True)


def _run_check(prop, tier, seed):
    t0 = time.time()
    mod = load_check(prop)
    known = Known()
    lines = []
    violations = []  # (bucket, replay path)

    if hasattr(mod, "selftest"):
        mod.selftest()
    import shutil
    shutil.rmtree(os.path.join(OUT, "replays", prop), ignore_errors=True)

    # 1. regression / witness replay tier
    regdir = os.path.join(VERIF, "regress", prop)
    n_regress = 0
    reproduced = set()
    if os.path.isdir(regdir):
        for fn in sorted(os.listdir(regdir)):
            if not fn.endswith(".json"):
                continue
            path = os.path.join(regdir, fn)
            out, body = replay_file(prop, path, quiet=True)
            n_regress += 1
            for bucket, sig, _detail in all_viols(out):
                kf = known.match(prop, bucket, sig or {})
                if kf is not None:
                    reproduced.add(kf["id"])
                else:
                    violations.append((bucket, os.path.relpath(path, VERIF)))
    for e in known.open_for(prop):
        if e["id"] in reproduced:
            lines.append(f"KNOWN-FINDING: property={prop} {e['what']} [{e['id']}]")

    # 2. generated search
    merged = {
        "evaluations": 0, "nt": set(), "nt_enum": 0, "classes": collections.Counter(), "samples": [],
        "excluded_known": collections.Counter(), "discards": collections.Counter(), "parts": {},
    }
    found = {}
    exhaustive = []
    ctx = mp.get_context("fork")
    if any(getattr(p, "fuzz", False) for p in mod.PARTS):
        from harness import fuzz
        fuzz.ensure()
    for part in mod.PARTS:
        ns = part.shards or NSHARDS
        jobs = [(prop, part.name, tier, seed, k, ns) for k in range(ns)]
        with ctx.Pool(min(ns, NSHARDS)) as pool:
            results = pool.map(run_shard, jobs, chunksize=1)
        pe = 0
        pd = 0
        pnt = set()
        pnt_enum = 0
        pwall = 0.0
        for k, (status, r) in enumerate(results):
            if status != "ok":
                raise HarnessError(f"{prop}/{part.name} shard {k}:\n{r}")
            pe += r["evaluations"]
            pd += sum(r["discards"].values())
            pnt.update(r["nt"])
            pnt_enum += r["nt_enum"]
            pwall = max(pwall, r["extra"].get("wall_s", 0.0))
            merged["classes"].update({f"{part.name}:{c}": n for c, n in r["classes"].items()})
            merged["excluded_known"].update(r["excluded_known"])
            merged["discards"].update({f"{part.name}:{c}": n for c, n in r["discards"].items()})
            if len([s for s in merged["samples"] if s["part"] == part.name]) < 3:
                for s in r["samples"][:1]:
                    merged["samples"].append({"part": part.name, "case": s})
            for b, v in r["violations"].items():
                key = (part.name, b)
                v["shard"] = k
                v["nshards"] = ns
                if key not in found or v["size"] < found[key]["size"]:
                    cnt = found[key]["count"] if key in found else 0
                    found[key] = v
                    v["count"] += cnt
                else:
                    found[key]["count"] += v["count"]
        if pe + pd > 0 and pd / (pe + pd) > part.max_discard:
            raise HarnessError(f"{prop}/{part.name}: generator discard rate {pd}/{pe + pd} "
                               f"exceeds {part.max_discard}: {dict(merged['discards'])}")
        if pe == 0 and getattr(part, "fuzz", False) and merged["classes"].get(f"{part.name}:fuzz_unavailable"):
            merged["parts"][part.name] = {"kind": "fuzz", "evaluations": 0, "unavailable": "atheris could not be imported or installed"}
            continue
        if pe == 0:
            raise HarnessError(f"{prop}/{part.name}: no case evaluated")
        merged["evaluations"] += pe
        merged["nt"].update(pnt)
        merged["nt_enum"] += pnt_enum
        is_exh = bool(part.exhaustive(tier))
        exhaustive.append(is_exh)
        merged["parts"][part.name] = {
            "kind": "fuzz" if getattr(part, "fuzz", False) else part.kind, "evaluations": pe, "distinct_nontrivial": len(pnt) + pnt_enum,
            "discarded": pd, "exhaustive": is_exh, "max_shard_wall_s": round(pwall, 2),
        }

    # 3. shrink and report new violations
    shrink_budget = 90 if tier == "quick" else 330
    for n_done, ((pname, bucket), v) in enumerate(sorted(found.items(), key=lambda kv: kv[0])):
        part = get_part(mod, pname)
        if part.kind == "hyp" and part.shrink and n_done < 3:
            small = shrink_violation(prop, part, tier, seed, v["shard"], v["nshards"], bucket, shrink_budget)
            if small is not None:
                out = _safe_check(part, small)
                if out.bucket == bucket:
                    v.update(case=small, sig=out.sig, detail=out.detail, shrunk=True)
        path = write_replay(prop, pname, v)
        violations.append((bucket, path))

    wall = time.time() - t0
    coverage = {
        "evaluations": merged["evaluations"],
        "distinct_nontrivial": len(merged["nt"]) + merged["nt_enum"],
        "rule": mod.RULE,
        "samples": merged["samples"][:12],
        "exhaustive": bool(exhaustive) and all(exhaustive),
        "parts": merged["parts"],
        "classes": dict(sorted(merged["classes"].items())),
        "excluded_known": dict(merged["excluded_known"]),
        "generator_discards": dict(merged["discards"]),
        "regress_replayed": n_regress,
        "known_findings_reproduced": sorted(reproduced),
        "violation_buckets": sorted({b for b, _ in violations}),
    }
    if hasattr(mod, "evidence_extra"):
        coverage.update(mod.evidence_extra(tier))
    evidence = {
        "property_id": prop, "tier": tier, "seed": seed, "level": mod.LEVEL, "coverage": coverage,
        "assumptions": list(getattr(mod, "ASSUME", [])), "wall_s": round(wall, 2),
        "violations": len(violations),
    }
    os.makedirs(os.path.join(OUT, "evidence"), exist_ok=True)
    with open(os.path.join(OUT, "evidence", prop + ".json"), "w") as f:
        json.dump(evidence, f, indent=1, default=str)
        f.write("\n")

    for ln in lines:
        print(ln)
    print(f"[{prop}] tier={tier} seed={seed} evaluations={coverage['evaluations']} "
          f"distinct_nontrivial={coverage['distinct_nontrivial']} excluded_known={sum(merged['excluded_known'].values())} "
          f"wall={wall:.1f}s")
    for pname, pinfo in merged["parts"].items():
        print(f"    part {pname}: {pinfo}")
    if violations:
        for bucket, path in violations:
            print(f"VIOLATION property={prop} replay={path}")
            print(f"    bucket: {bucket}")
        return 1
    return 0
