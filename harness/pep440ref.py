"""Reference version order: packaging.version for PEP 440 strings, own key for legacy strings.

Independent of bumpver's vendored copy.  key(s) is totally ordered over all strings:
(0, legacy_key) < (1, packaging.Version).
"""
import re
import functools

from packaging.version import Version, InvalidVersion


def pep440(s):
    """packaging Version or None"""
    try:
        return Version(s)
    except InvalidVersion:
        return None


_COMPONENT = re.compile(r"(\d+|[a-z]+|\.|-)")
_REPLACE = {"pre": "c", "preview": "c", "-": "final-", "rc": "c", "dev": "@"}


def legacy_key(s):
    """The historical pkg_resources.parse_version key (setuptools before PEP 440), written from its
    documentation: split into digit runs / letter runs / '.' / '-', zero-fill numbers to 8 digits,
    prefix words with '*', map pre/preview/rc -> c, dev -> @, '-' -> 'final-'; before a word drop
    trailing zero groups, and before a pre-release word also drop dangling 'final-'; end with '*final'."""
    parts = []
    for tok in _COMPONENT.split(s.lower()) + [None]:
        if tok is None:
            tok = "*final"
        else:
            tok = _REPLACE.get(tok, tok)
            if not tok or tok == ".":
                continue
            tok = tok.zfill(8) if tok[0].isdigit() else "*" + tok
        if tok.startswith("*"):
            if tok < "*final":
                while parts and parts[-1] == "*final-":
                    parts.pop()
            while parts and parts[-1] == "00000000":
                parts.pop()
        parts.append(tok)
    return tuple(parts)


@functools.lru_cache(maxsize=200000)
def key(s):
    v = pep440(s)
    if v is not None:
        return (1, v)
    return (0, legacy_key(s))


def cmp(a, b):
    ka, kb = key(a), key(b)
    return (ka > kb) - (ka < kb)


def canonical(s):
    v = pep440(s)
    return str(v) if v is not None else s
