"""Reference renderer / recogniser / matcher for bumpver's v2 pattern language.

Written from the README's "Part Overview" table and its text on optional groups - never from
bumpver's PART_PATTERNS / PART_FORMATS tables.  Patterns are ASTs (JSON lists):

    ["lit", text] | ["part", NAME] | ["opt", [node, ...]]

A *state* is a dict field -> value:  year_y year_g quarter month dom doy week_w week_u week_v (ints),
major minor patch num inc0 inc1 (ints), bid (digit string), tag (long tag name, 'final' = none).
"""
import datetime as dt

CAL_FIELDS = ["year_y", "year_g", "quarter", "month", "dom", "doy", "week_w", "week_u", "week_v"]
PART_FIELD = {
    "YYYY": "year_y", "YY": "year_y", "0Y": "year_y", "GGGG": "year_g", "GG": "year_g", "0G": "year_g",
    "Q": "quarter", "MM": "month", "0M": "month", "DD": "dom", "0D": "dom", "JJJ": "doy", "00J": "doy",
    "WW": "week_w", "0W": "week_w", "UU": "week_u", "0U": "week_u", "VV": "week_v", "0V": "week_v",
    "MAJOR": "major", "MINOR": "minor", "PATCH": "patch", "BUILD": "bid", "BLD": "bid",
    "TAG": "tag", "PYTAG": "tag", "NUM": "num", "INC0": "inc0", "INC1": "inc1",
}
ALL_PARTS = sorted(PART_FIELD, key=len, reverse=True)
FIXED_WIDTH = {"YYYY": 4, "GGGG": 4, "0Y": 2, "0G": 2, "0M": 2, "0D": 2, "00J": 3, "0W": 2, "0U": 2, "0V": 2, "Q": 1}
RANGES = {"quarter": (1, 4), "month": (1, 12), "dom": (1, 31), "doy": (1, 366),
          "week_w": (0, 53), "week_u": (0, 53), "week_v": (1, 53)}
TAGS = ["final", "dev", "alpha", "beta", "rc", "post"]
# 'preview' is an undocumented spelling that the TAG part accepts (PEP 440: an alias of rc); a current version may carry it
TAG_READ = TAGS + ["preview"]
PYTAG = {"final": "", "dev": "dev", "alpha": "a", "beta": "b", "rc": "rc", "post": "post", "preview": "rc"}
ZERO = {"MAJOR": 0, "MINOR": 0, "PATCH": 0, "NUM": 0, "INC0": 0, "TAG": "final", "PYTAG": "final"}
NUMERIC_FREE = ("BUILD", "MAJOR", "MINOR", "PATCH", "NUM", "INC0")  # any digit string, leading zeros allowed


# ------------------------------------------------------------------ calendar arithmetic (no strftime)


def ref_cal(d):
    iso = d.isocalendar()
    doy = d.toordinal() - dt.date(d.year, 1, 1).toordinal() + 1
    wd_mon0 = d.weekday()  # Monday = 0
    wd_sun0 = (d.weekday() + 1) % 7  # Sunday = 0
    return {
        "year_y": d.year, "year_g": iso[0], "quarter": (d.month - 1) // 3 + 1, "month": d.month, "dom": d.day,
        "doy": doy,
        "week_w": (doy + 6 - wd_mon0) // 7,  # weeks start on Monday, days before the first Monday are week 0
        "week_u": (doy + 6 - wd_sun0) // 7,  # weeks start on Sunday
        "week_v": iso[1],
    }


def selftest_calendar():
    """cross-check against strftime on a spread of dates"""
    d = dt.date(1999, 12, 20)
    for i in range(500):
        c = ref_cal(d)
        s = (d.year, int(d.strftime("%G")), int(d.strftime("%j")), int(d.strftime("%W")), int(d.strftime("%U")), int(d.strftime("%V")))
        if (c["year_y"], c["year_g"], c["doy"], c["week_w"], c["week_u"], c["week_v"]) != s:
            return f"calendar reference disagrees with strftime on {d}: {c} vs {s}"
        d += dt.timedelta(days=1 if i < 60 else 37)
    return None


# ------------------------------------------------------------------ AST helpers


def pattern_str(nodes):
    out = []
    for n in nodes:
        if n[0] == "lit":
            out.append(n[1].replace("[", "\\[").replace("]", "\\]"))
        elif n[0] == "part":
            out.append(n[1])
        else:
            out.append("[" + pattern_str(n[1]) + "]")
    return "".join(out)


def parts_of(nodes):
    for n in nodes:
        if n[0] == "part":
            yield n[1]
        elif n[0] == "opt":
            yield from parts_of(n[1])


def fields_of(nodes):
    return [PART_FIELD[p] for p in parts_of(nodes)]


def has_opt(nodes):
    return any(n[0] == "opt" for n in nodes)


# ------------------------------------------------------------------ renderer


def fmt_part(part, state):
    v = state[PART_FIELD[part]]
    if part in ("YYYY", "GGGG"):
        return str(v)
    if part in ("YY", "GG"):
        return str(v % 100)
    if part in ("0Y", "0G"):
        return "%02d" % (v % 100)
    if part in ("0M", "0D", "0W", "0U", "0V"):
        return "%02d" % v
    if part == "00J":
        return "%03d" % v
    if part == "BUILD":
        return v
    if part == "BLD":
        return str(int(v))
    if part == "TAG":
        return v
    if part == "PYTAG":
        return PYTAG[v]
    return str(v)


def is_zero(part, state):
    return part in ZERO and state[PART_FIELD[part]] == ZERO[part]


def all_zero(nodes, state):
    ps = list(parts_of(nodes))
    return len(ps) > 0 and all(is_zero(p, state) for p in ps)


def ref_render(nodes, state):
    """An optional group is omitted exactly when it contains at least one part and all parts inside it
    (nested ones included) are zero."""
    out = []
    for n in nodes:
        if n[0] == "lit":
            out.append(n[1])
        elif n[0] == "part":
            out.append(fmt_part(n[1], state))
        else:
            ps = list(parts_of(n[1]))
            if len(ps) == 0 or all_zero(n[1], state):
                continue
            out.append(ref_render(n[1], state))
    return "".join(out)


# ------------------------------------------------------------------ recogniser


def _part_candidates(part, text, i):
    """yield (end, value) for every way `part` can be read at text[i:]"""
    f = PART_FIELD[part]
    if part in ("TAG", "PYTAG"):
        names = TAG_READ if part == "TAG" else [t for t in TAGS if t != "final"]
        for t in names:
            s = t if part == "TAG" else PYTAG[t]
            if text.startswith(s, i):
                yield i + len(s), t
        return
    j = i
    while j < len(text) and text[j] in "0123456789":
        j += 1
    for end in range(j, i, -1):
        s = text[i:end]
        if part in FIXED_WIDTH:
            if len(s) != FIXED_WIDTH[part]:
                continue
        elif part not in NUMERIC_FREE:
            if len(s) > 1 and s[0] == "0":
                continue  # unpadded parts carry no leading zero
        v = int(s)
        if part in ("YYYY", "GGGG"):
            if not 1000 <= v <= 9999:
                continue
        elif part in ("YY", "GG"):
            if not 1 <= v <= 99:
                continue
            v += 2000
        elif part in ("0Y", "0G"):
            v += 2000
        elif f in RANGES:
            lo, hi = RANGES[f]
            if not lo <= v <= hi:
                continue
        elif part in ("BLD", "INC1"):
            if v < 1:
                continue
        if part in ("BUILD", "BLD"):
            yield end, s
        else:
            yield end, v


def _parse_at(nodes, text, i, acc):
    if not nodes:
        yield i, acc
        return
    n, rest = nodes[0], nodes[1:]
    if n[0] == "lit":
        if text.startswith(n[1], i):
            yield from _parse_at(rest, text, i + len(n[1]), acc)
    elif n[0] == "part":
        for end, v in _part_candidates(n[1], text, i):
            a = dict(acc)
            a[PART_FIELD[n[1]]] = v
            yield from _parse_at(rest, text, end, a)
    else:
        for end, a in _parse_at(n[1], text, i, acc):
            yield from _parse_at(rest, text, end, a)
        yield from _parse_at(rest, text, i, acc)


def _possible_date(a):
    """calendar possibility: the fields read must belong to some real date"""
    y = a.get("year_y")
    if y is not None:
        if "month" in a and "dom" in a:
            try:
                dt.date(y, a["month"], a["dom"])
            except ValueError:
                return False
        if "doy" in a:
            if a["doy"] > (366 if (y % 4 == 0 and (y % 100 != 0 or y % 400 == 0)) else 365):
                return False
    return True


def ref_parse_all(nodes, text, at=0, full=True):
    """all parses (dicts field -> value, only fields that occur in the text) of nodes against text"""
    res = []
    for end, a in _parse_at(nodes, text, at, {}):
        if full and end != len(text):
            continue
        if not _possible_date(a):
            continue
        a = dict(a)
        a["_end"] = end
        if a not in res:
            res.append(a)
    return res


def with_defaults(nodes, parsed):
    """fields of the pattern that were omitted (zero optional groups) take their zero values"""
    out = {k: v for k, v in parsed.items() if not k.startswith("_")}
    for p in parts_of(nodes):
        f = PART_FIELD[p]
        if f not in out:
            out[f] = ZERO.get(p, 1 if p == "INC1" else None)
    return out


def state_eq_on(nodes, a, b):
    """do states a and b agree on every field used by the pattern (bid compared as written for BUILD,
    numerically for BLD)?"""
    for p in parts_of(nodes):
        f = PART_FIELD[p]
        va, vb = a.get(f), b.get(f)
        if p == "BLD":
            if int(va) != int(vb):
                return False
        elif va != vb:
            return False
    return True


def ref_search(nodes, line):
    """leftmost-longest match of nodes inside line -> (start, end) or None"""
    for start in range(len(line) + 1):
        ends = [a["_end"] for a in ref_parse_all(nodes, line, at=start, full=False)]
        ends = [e for e in ends if e > start]
        if ends:
            return start, max(ends)
    return None
