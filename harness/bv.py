"""Adapter around bumpver: in-process and subprocess CLI invocation with log capture."""
import os
import sys
import logging
import datetime as dt
import subprocess

from harness import core  # noqa: F401  (puts BUMPVER_SRC first on sys.path)

import click.testing

import bumpver.cli as bv_cli
import bumpver.version as bv_version

PY = "/venv/bin/python"


class Res:
    __slots__ = ("exit", "out", "err", "crashed", "exc")

    def __init__(self, exit, out, err, crashed=False, exc=None):
        self.exit = exit
        self.out = out
        self.err = err
        self.crashed = crashed
        self.exc = exc

    def field(self, label, where="both"):
        """value after '<label>: ' - e.g. 'New Version', 'Old Version', 'PEP440     ', 'Current Version'"""
        texts = {"out": [self.out], "err": [self.err], "both": [self.out, self.err]}[where]
        key = label + ": "
        for t in texts:
            for line in t.splitlines():
                i = line.find(key)
                if i >= 0 and (i == 0 or line[:i].strip(" -") in ("INFO", "")):
                    return line[i + len(key):]
        return None

    @property
    def new_version(self):
        return self.field("New Version")

    @property
    def old_version(self):
        return self.field("Old Version")

    def summary(self, n=600):
        return {"exit": self.exit, "crashed": self.crashed, "exc": self.exc, "out": self.out[-n:], "err": self.err[-n:]}


def run(args, cwd=None, env=None, today=None):
    """in-process: exactly what `bumpver <args>` does, minus interpreter start-up"""
    logging.root.handlers.clear()
    bv_cli._VERBOSE = 0
    bv_version.TODAY = today or dt.date(2000, 1, 1)
    old_cwd = os.getcwd() if cwd else None
    if cwd:
        os.chdir(cwd)
    try:
        runner = click.testing.CliRunner()
        r = runner.invoke(bv_cli.cli, list(args), env=env, catch_exceptions=True)
    finally:
        if old_cwd:
            os.chdir(old_cwd)
        logging.root.handlers.clear()
    crashed = r.exception is not None and not isinstance(r.exception, SystemExit)
    exc = repr(r.exception) if crashed else None
    code = r.exit_code
    if crashed:
        code = 1  # an uncaught exception is a traceback and exit status 1 for the user
    return Res(code, r.stdout, r.stderr, crashed, exc)


def run_sub(args, cwd=None, env=None, timeout=120):
    """subprocess: python -m bumpver with an explicit environment"""
    e = {"PATH": os.environ.get("PATH", "/usr/bin:/bin"), "HOME": os.environ.get("HOME", "/tmp"),
         "PYTHONPATH": core.BUMPVER_SRC, "PYTHONDONTWRITEBYTECODE": "1", "TZ": "UTC"}
    if env:
        e.update(env)
    p = subprocess.run([PY, "-m", "bumpver"] + list(args), cwd=cwd, env=e, capture_output=True, timeout=timeout)
    out = p.stdout.decode("utf-8", "replace")
    err = p.stderr.decode("utf-8", "replace")
    crashed = "Traceback (most recent call last)" in err
    return Res(p.returncode, out, err, crashed, err.strip().splitlines()[-1] if crashed and err.strip() else None)


FLAG_NAMES = ["major", "minor", "patch", "tag_num", "pin_date", "pin_increments"]


def flag_args(flags):
    """flags: dict with bools major/minor/patch/tag_num/pin_date/pin_increments, tag (str|None),
    date (iso str|None), set_version (str|None)"""
    a = []
    for f in FLAG_NAMES:
        if flags.get(f):
            a.append("--" + f.replace("_", "-"))
    if flags.get("tag") is not None:
        a += ["--tag", flags["tag"]]
    if flags.get("date") is not None:
        a += ["--date", flags["date"]]
    if flags.get("set_version") is not None:
        a += ["--set-version", flags["set_version"]]
    return a
