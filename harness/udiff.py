"""Strict parser / applier for what difflib.unified_diff(lineterm="") can emit, as printed by `bumpver update --dry`
(per file: header + hunks, joined with '\\n'; files separated by '\\n'; an unchanged file contributes an empty line)."""
import re

HUNK = re.compile(r"^@@ -(\d+)(?:,(\d+))? \+(\d+)(?:,(\d+))? @@$")


class DiffError(Exception):
    pass


def parse(text):
    """-> [(path, [hunk, ...])], hunk = (old_start, old_len, new_start, new_len, [(tag, line), ...])"""
    lines = text.split("\n")
    # click.echo appends one newline
    if lines and lines[-1] == "":
        lines.pop()
    files = []
    i = 0
    while i < len(lines):
        ln = lines[i]
        if ln == "":
            i += 1  # unchanged file / separator
            continue
        if not ln.startswith("--- ") or i + 1 >= len(lines) or not lines[i + 1].startswith("+++ "):
            raise DiffError(f"expected file header at output line {i + 1}: {ln!r}")
        path = ln[4:]
        if lines[i + 1][4:] != path:
            raise DiffError(f"from/to paths differ: {ln!r} / {lines[i + 1]!r}")
        i += 2
        hunks = []
        while i < len(lines) and lines[i].startswith("@@ "):
            m = HUNK.match(lines[i])
            if not m:
                raise DiffError(f"malformed hunk header: {lines[i]!r}")
            a = int(m.group(1))
            b = 1 if m.group(2) is None else int(m.group(2))
            c = int(m.group(3))
            dlen = 1 if m.group(4) is None else int(m.group(4))
            i += 1
            body = []
            seen_old = seen_new = 0
            while seen_old < b or seen_new < dlen:
                if i >= len(lines):
                    raise DiffError("hunk body ends early")
                bl = lines[i]
                if bl == "":
                    raise DiffError(f"empty line inside hunk body (output line {i + 1})")
                tag, rest = bl[0], bl[1:]
                if tag == " ":
                    seen_old += 1
                    seen_new += 1
                elif tag == "-":
                    seen_old += 1
                elif tag == "+":
                    seen_new += 1
                else:
                    raise DiffError(f"bad hunk line: {bl!r}")
                body.append((tag, rest))
                i += 1
            if seen_old != b or seen_new != dlen:
                raise DiffError("hunk line counts do not add up")
            hunks.append((a, b, c, dlen, body))
        if not hunks:
            raise DiffError(f"file header without hunks: {path!r}")
        files.append((path, hunks))
    return files


def apply(old_lines, hunks):
    """apply hunks to a list of lines (no terminators) -> new list; verifies context and removed lines"""
    out = []
    pos = 0  # index into old_lines
    for a, b, c, dlen, body in hunks:
        start = a - 1 if b > 0 else a  # "-a,0" names the line BEFORE the insertion point
        if start < pos:
            raise DiffError("hunks overlap or are out of order")
        out.extend(old_lines[pos:start])
        pos = start
        if b > 0 or dlen > 0:
            expect_new = c - 1 if dlen > 0 else c
            if len(out) != expect_new:
                raise DiffError(f"new-file line number {c} does not fit (have {len(out)} lines so far)")
        for tag, line in body:
            if tag in " -":
                if pos >= len(old_lines) or old_lines[pos] != line:
                    have = old_lines[pos] if pos < len(old_lines) else None
                    raise DiffError(f"context/removed line does not match the file at line {pos + 1}: diff {line!r}, file {have!r}")
                pos += 1
                if tag == " ":
                    out.append(line)
            else:
                out.append(line)
    out.extend(old_lines[pos:])
    return out
