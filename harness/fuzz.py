"""Coverage-guided tier (atheris / libFuzzer) over the same data-provider generators.

A fuzz part re-uses the `build(DP)` decoder and the `check(case)` oracle of a Hypothesis part; only the source of
the bytes changes: libFuzzer mutates them under coverage feedback from the instrumented `bumpver` package (Python
level branches and integer / string comparisons; the C `re` engine gives no gradient, the Python code around it -
pattern compilation, segment-tree rendering, bump rules, comparison keys - does).  The semantic oracle stays inside
the target; nothing is decided by "it crashed".

Each shard runs libFuzzer in a forked child (atheris.Fuzz() does not return): `-seed` derived from VERIF_SEED,
fixed `-max_len`, empty corpus plus a handful of all-zero / patterned seeds, and the child stops itself after the
part's case budget, writing its collector to a file.  libFuzzer pins a campaign only approximately (timing of
coverage discovery); the replay unit is the saved JSON case, which bypasses libFuzzer altogether.

The tier is additive: if atheris cannot be imported (not installed into /verif/.deps by setup.sh) the part reports
zero evaluations in evidence (`fuzz_unavailable`) and the Hypothesis parts decide the property alone.
"""
import json
import os
import sys
import tempfile
import traceback
import types

from harness.core import Part, HarnessError, Collector, Known, VERIF
from harness.dp import DP

DEPS = os.path.join(VERIF, ".deps")


def _import_atheris():
    if os.environ.get("VERIF_NO_FUZZ"):
        return None
    if DEPS not in sys.path and os.path.isdir(DEPS):
        sys.path.append(DEPS)
    try:
        import atheris  # noqa
        return atheris
    except Exception:
        return None


def ensure():
    """make atheris importable (offline wheelhouse -> /verif/.deps); failure is tolerated, see module docstring"""
    if _import_atheris() is not None:
        return True
    import subprocess
    try:
        subprocess.run([sys.executable, "-m", "pip", "install", "-q", "--no-index", "--find-links", "/opt/veriftools/wheels",
                        "--target", DEPS, "atheris"], capture_output=True, timeout=300, env=dict(os.environ, PIP_NO_INDEX="1"))
    except Exception:
        pass
    return _import_atheris() is not None


def _instrument(atheris, prefixes):
    """instrument every Python function of the already imported modules whose name starts with one of `prefixes`"""
    done = set()
    n = 0
    for name, mod in list(sys.modules.items()):
        if mod is None or not any(name == p or name.startswith(p + ".") for p in prefixes):
            continue
        for obj in list(vars(mod).values()):
            funcs = []
            if isinstance(obj, types.FunctionType):
                funcs.append(obj)
            elif isinstance(obj, type) and obj.__module__ == name:
                for m in vars(obj).values():
                    if isinstance(m, types.FunctionType):
                        funcs.append(m)
                    elif isinstance(m, (staticmethod, classmethod)) and isinstance(m.__func__, types.FunctionType):
                        funcs.append(m.__func__)
            for f in funcs:
                if f.__module__ is None or not any(f.__module__ == p or f.__module__.startswith(p + ".") for p in prefixes):
                    continue
                if id(f) in done or getattr(f, "__wrapped__", None) is not None:
                    continue  # lru_cache wrappers etc. are reached through their inner function below
                done.add(id(f))
                try:
                    atheris.instrument_func(f)
                    n += 1
                except Exception:
                    pass
            w = getattr(obj, "__wrapped__", None)
            if isinstance(w, types.FunctionType) and id(w) not in done and w.__module__ and \
                    any(w.__module__ == p or w.__module__.startswith(p + ".") for p in prefixes):
                done.add(id(w))
                try:
                    atheris.instrument_func(w)
                    n += 1
                except Exception:
                    pass
    return n


def _child(atheris, prop, part, build, size, n, sseed, path, prefixes, preload):
    col = Collector(prop, part.name, Known())
    for m in preload:
        __import__(m)
    ninstr = _instrument(atheris, prefixes)
    count = [0]

    def finish(err=None):
        d = col.to_dict()
        d["extra"]["instrumented_functions"] = ninstr
        with open(path, "w") as f:
            json.dump({"col": d, "err": err}, f, default=str)
        os._exit(0 if err is None else 2)

    def one(data):
        try:
            if len(data) < size:
                data = data + bytes(size - len(data))
            case = build(DP(data[:size]))
            col.record(case, part.check(case))
        except BaseException:
            finish(traceback.format_exc())
        count[0] += 1
        if count[0] >= n:
            finish()

    corpus = tempfile.mkdtemp(prefix="fuzzcorpus_")
    # starting corpus: the simplest case (all zeros) and a few patterned buffers; the empty corpus is what -runs starts from
    for i, b in enumerate([bytes(size), bytes([1]) * size, bytes(range(256)) * (size // 256 + 1), bytes([255]) * size]):
        with open(os.path.join(corpus, "seed%d" % i), "wb") as f:
            f.write(b[:size])
    devnull = os.open(os.devnull, os.O_WRONLY)
    os.dup2(devnull, 2)  # libFuzzer's progress chatter
    argv = [sys.argv[0], "-seed=%d" % (sseed % (2 ** 31 - 1) + 1), "-max_len=%d" % size, "-len_control=0",
            "-runs=%d" % (n * 4 + 1000), "-timeout=86400", "-rss_limit_mb=0", "-verbosity=0", "-print_final_stats=0",
            "-use_value_profile=1", "-reduce_inputs=0", corpus]
    atheris.Setup(argv, one, enable_python_coverage=True)
    atheris.Fuzz()
    finish()


def fuzz_part(name, build, check, size, runs, prefixes=("bumpver",), preload=("bumpver.cli",), max_discard=0.05, shards=None):
    """Part(kind='custom') that drives check(build(DP(bytes))) with libFuzzer."""
    holder = {}

    def run(tier, sseed, k, nshards, col):
        part = holder["part"]
        n = runs[tier] // nshards + (1 if k < runs[tier] % nshards else 0)
        if n <= 0:
            return
        atheris = _import_atheris()
        if atheris is None:
            col.classes["fuzz_unavailable"] += 1
            col.evaluations += 0
            col.extra["fuzz_unavailable"] = True
            return
        fd, path = tempfile.mkstemp(prefix="fuzzres_", suffix=".json")
        os.close(fd)
        sys.stdout.flush()
        pid = os.fork()
        if pid == 0:
            try:
                _child(atheris, col.prop, part, build, size, n, sseed, path, prefixes, preload)
            except BaseException:
                try:
                    with open(path, "w") as f:
                        json.dump({"col": None, "err": traceback.format_exc()}, f)
                finally:
                    os._exit(2)
            os._exit(0)
        _, status = os.waitpid(pid, 0)
        try:
            with open(path) as f:
                res = json.load(f)
        except Exception:
            raise HarnessError(f"fuzz child of {col.prop}/{name} shard {k} left no result (wait status {status})")
        finally:
            try:
                os.unlink(path)
            except OSError:
                pass
        if res.get("err"):
            raise HarnessError(f"fuzz child of {col.prop}/{name} shard {k}:\n{res['err']}")
        col.load(res["col"])

    part = Part(name, check=check, run=run, max_discard=max_discard, shards=shards)
    part.fuzz = True
    part.n = runs
    holder["part"] = part
    return part
