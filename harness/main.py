"""Entry point:  ./check <ID> quick|thorough   |   ./check <ID> --replay <file>   |   ./check all quick"""
import os
import sys
import traceback

from harness import core


def main(argv):
    if len(argv) < 2:
        print(__doc__)
        return 2
    prop = argv[0].upper() if argv[0].lower() != "all" else "all"
    seed = int(os.environ.get("VERIF_SEED", "1") or "1")
    if argv[1] == "--replay":
        out, _ = core.replay_file(prop, argv[2])
        rc = 0
        known = core.Known()
        for bucket, sig, _detail in core.all_viols(out):
            kf = known.match(prop, bucket, sig or {})
            if kf is not None:
                print(f"KNOWN-FINDING: property={prop} {kf['what']} [{kf['id']}]")
            else:
                print(f"VIOLATION property={prop} replay={argv[2]}")
                rc = 1
        return rc
    tier = argv[1]
    if tier not in ("quick", "thorough"):
        tier = os.environ.get("VERIF_TIER", "quick")
    if prop == "all":
        rc = 0
        for fn in sorted(os.listdir(os.path.join(core.VERIF, "checks"))):
            if fn.startswith("c") and fn.endswith(".py") and fn[1:3].isdigit():
                r = os.system(f"cd {core.VERIF} && ./check {fn[:3].upper()} {tier}")
                rc = max(rc, r >> 8)
        return rc
    return core.run_check(prop, tier, seed)


if __name__ == "__main__":
    try:
        sys.exit(main(sys.argv[1:]))
    except core.HarnessError as ex:
        print(f"HARNESS-ERROR: {ex}", file=sys.stderr)
        sys.exit(2)
    except SystemExit:
        raise
    except BaseException:
        traceback.print_exc()
        print("HARNESS-ERROR: unexpected exception in the harness", file=sys.stderr)
        sys.exit(2)
