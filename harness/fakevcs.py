"""Fake VCS executables on PATH (DESIGN.md 3.8): environment set-up and log parsing."""
import os
import shutil

from harness import core

BIN = os.path.join(core.VERIF, "fakevcs")


class FakeVCS:
    """usage:  fv = FakeVCS(project_dir, 'git'); fv.set('tags_all', 'v1\\n'); env = fv.env(); ... fv.records()"""

    def __init__(self, project, kind="git", state_dir=None):
        self.project = project
        self.kind = kind
        self.dir = state_dir or os.path.join(project, ".fakevcs")
        os.makedirs(self.dir, exist_ok=True)
        os.makedirs(os.path.join(project, "." + kind), exist_ok=True)
        self.log = os.path.join(self.dir, "log")
        open(self.log, "wb").close()

    def set(self, name, text):
        with open(os.path.join(self.dir, name + ".out"), "w", encoding="utf-8", newline="") as f:
            f.write(text)

    def env(self, fail=None, fail_n=1, extra=None):
        e = {"PATH": BIN + os.pathsep + "/usr/bin:/bin", "FAKEVCS_LOG": self.log, "FAKEVCS_DIR": self.dir,
             "FAKEVCS_BIN": BIN, "FAKEVCS_FAIL": fail or "", "FAKEVCS_FAIL_N": str(fail_n),
             # stale values, as left behind by an enclosing bumpver run or an `export`: hooks must see this update's versions
             "BUMPVER_OLD_VERSION": "0.0.0-stale", "BUMPVER_NEW_VERSION": "0.0.1-stale"}
        if extra:
            e.update(extra)
        return e

    def install_hook(self, name, exit_code=0):
        """-> relative path of an executable hook script inside the project"""
        rel = os.path.join("hooks", name)
        dst = os.path.join(self.project, rel)
        os.makedirs(os.path.dirname(dst), exist_ok=True)
        shutil.copy(os.path.join(BIN, "hook"), dst)
        os.chmod(dst, 0o755)
        return rel

    def reset_log(self):
        open(self.log, "wb").close()
        try:
            os.unlink(os.path.join(self.dir, "failcount"))
        except OSError:
            pass

    def records(self):
        """[[arg0, arg1, ...], ...] in invocation order (bytes decoded as UTF-8)"""
        with open(self.log, "rb") as f:
            data = f.read()
        out = []
        pos = 0
        while pos < len(data):
            assert data[pos:pos + 2] == b"R ", data[pos:pos + 40]
            nl = data.index(b"\n", pos)
            argc = int(data[pos + 2:nl])
            pos = nl + 1
            args = []
            for _ in range(argc):
                colon = data.index(b":", pos)
                n = int(data[pos:colon])
                args.append(data[colon + 1:colon + 1 + n].decode("utf-8", "surrogateescape"))
                pos = colon + 1 + n + 1
            out.append(args)
        return out


def kind_of(rec):
    """step kind of a record: usable fetch tags_all tags_merged status add commit tag push remote branches hook:<name>"""
    if rec[0] == "hook":
        return "hook:" + rec[1]
    prog, args = rec[0], rec[1:]
    if not args:
        return "other"
    a = args[0]
    if prog == "git":
        if a == "tag":
            if args[1:3] == ["--list", "--merged"]:
                return "tags_merged"
            if args[1:2] == ["--list"]:
                return "tags_all"
            return "tag"
        return {"rev-parse": "usable", "fetch": "fetch", "status": "status", "add": "add", "commit": "commit", "push": "push",
                "config": "remote", "branch": "branches"}.get(a, "other")
    return {"root": "usable", "pull": "fetch", "tags": "tags_all", "log": "tags_merged", "status": "status", "add": "add",
            "commit": "commit", "tag": "tag", "push": "push", "paths": "remote"}.get(a, "other")


MUTATING = ("add", "commit", "tag", "push")
