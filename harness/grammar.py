"""Pattern grammar G (DESIGN.md 3.2): generators (over a DP byte decoder) for version-pattern ASTs and
reachable version states, and the soundness validator.

Every restriction below is an implicit precondition of the documented pattern language; they are
enforced by construction and re-checked by validate() / unambiguous().
"""
import datetime as dt

from harness.refmodel import (PART_FIELD, FIXED_WIDTH, TAGS, ALL_PARTS, ref_cal, parts_of, pattern_str,
                              ref_render, ref_parse_all, with_defaults, state_eq_on)

YEARS = ["YYYY", "YYYY", "YY", "0Y"]
SUBS = [[], ["MM"], ["0M"], ["MM", "DD"], ["0M", "0D"], ["Q"], ["MM", "0D"], ["0M", "DD"], ["JJJ"], ["00J"],
        ["WW"], ["0W"], ["UU"], ["0U"]]
ISO = [["GGGG", "0V"], ["GGGG", "VV"], ["GGGG"], ["GG"], ["0G"], ["GG", "VV"], ["0G", "0V"], ["GG", "0V"], ["0G", "VV"]]
SEMS = [["MAJOR", "MINOR", "PATCH"], ["MAJOR", "MINOR"], ["MAJOR"], ["PATCH"], ["MINOR", "PATCH"], ["MINOR"]]
EXTRAS = [[], [], ["BUILD"], ["BLD"], ["INC0"], ["INC1"], ["BUILD", "INC0"], ["INC1", "BUILD"], ["INC0", "BLD"]]
SEP_NUM = [".", ".", ".", ".", "-", "_", "x", "w", "/", "d", ".r", "~", "+", "!", ":", "#", "%", "&", "=", ",", "@"]
TAGKINDS = ["none", "none", "[-TAG]", "[PYTAGNUM]", "[-TAGNUM]", "[-TAG[NUM]]", "[PYTAG[NUM]]", "-TAG", "-TAGNUM",
            "[.TAG.NUM]", "[_PYTAG-NUM]", "[-TAG[.NUM]]"]
TSEPS = ["-", ".", "_", "", "--", "+", "~"]
RESETTABLE = ("MAJOR", "MINOR", "PATCH", "NUM", "INC0", "INC1")


def is_var(part):
    return part not in FIXED_WIDTH and part not in ("TAG", "PYTAG")


def _straddles(a, b):
    """does gluing part names a+b create another part name across the boundary?"""
    s = a + b
    for p in ALL_PARTS:
        i = s.find(p)
        while i >= 0:
            if i < len(a) < i + len(p):
                return True
            i = s.find(p, i + 1)
    return False


def gen_version_ast(d, safe_seps=False):
    """safe_seps: restrict separators to those that C07 shows are handled literally on the unchanged
    tree ('|', '^', '$', backslash are never generated here; they are C07's subject)."""
    nodes = []
    prefix = d.choice(["", "", "v", "v", "r", "rel-", "version_", "py3"])
    if prefix:
        nodes.append(["lit", prefix])
    kind = d.choice(["cal", "cal", "sem", "iso", "cal+sem"])
    head = []
    if kind in ("cal", "cal+sem"):
        head += [d.choice(YEARS)] + d.choice(SUBS)
    elif kind == "iso":
        head += d.choice(ISO)
    counters = []
    if kind in ("sem", "cal+sem"):
        counters += d.choice(SEMS)
    extra = list(d.choice(EXTRAS))
    if kind in ("cal", "iso") and not extra and d.bool():
        extra = [d.choice(["BUILD", "INC0", "INC1", "PATCH", "MINOR"])]
    if d.chance(1, 4):
        # extras may stand anywhere after the release head
        seq = head + d.shuffle(counters + extra)
    else:
        seq = head + counters + extra
    seps = SEP_NUM[:10] if safe_seps else SEP_NUM
    main = []
    for k, p in enumerate(seq):
        if k > 0:
            prev = seq[k - 1]
            glue = (not is_var(prev)) and d.chance(1, 4) and not _straddles(prev, p)
            if not glue:
                main.append(["lit", d.choice(seps)])
        main.append(["part", p])
    # wrap a zero-able numeric suffix into nested optional groups:  A.MINOR.PATCH -> A[.MINOR[.PATCH]]
    tail = []
    while (len(main) >= 3 and main[-1][0] == "part" and main[-1][1] in ("MINOR", "PATCH", "INC0", "INC1")
           and main[-2][0] == "lit" and d.bool()):
        part = main.pop()
        sep = main.pop()
        tail = [["opt", [sep, part] + tail]]
    main += tail
    nodes += main
    tagkind = d.choice(TAGKINDS)
    tsep = d.choice(TSEPS)

    def T(*xs):
        return [list(x) for x in xs if x != ("lit", "")]

    if tagkind == "[-TAG]":
        nodes.append(["opt", T(("lit", tsep), ("part", "TAG"))])
    elif tagkind == "[PYTAGNUM]":
        nodes.append(["opt", [["part", "PYTAG"], ["part", "NUM"]]])
    elif tagkind == "[-TAGNUM]":
        nodes.append(["opt", T(("lit", tsep), ("part", "TAG"), ("part", "NUM"))])
    elif tagkind == "[-TAG[NUM]]":
        nodes.append(["opt", T(("lit", tsep), ("part", "TAG")) + [["opt", [["part", "NUM"]]]]])
    elif tagkind == "[-TAG[.NUM]]":
        nodes.append(["opt", T(("lit", tsep), ("part", "TAG")) + [["opt", [["lit", "."], ["part", "NUM"]]]]])
    elif tagkind == "[PYTAG[NUM]]":
        nodes.append(["opt", [["part", "PYTAG"], ["opt", [["part", "NUM"]]]]])
    elif tagkind == "-TAG":
        nodes += T(("lit", tsep or "-"), ("part", "TAG"))
    elif tagkind == "-TAGNUM":
        nodes += T(("lit", tsep or "-"), ("part", "TAG"), ("part", "NUM"))
    elif tagkind == "[.TAG.NUM]":
        nodes.append(["opt", [["lit", "."], ["part", "TAG"], ["lit", "."], ["part", "NUM"]]])
    elif tagkind == "[_PYTAG-NUM]":
        nodes.append(["opt", [["lit", "_"], ["part", "PYTAG"], ["lit", "-"], ["part", "NUM"]]])
    if not list(parts_of(nodes)):
        nodes.append(["part", "MAJOR"])
    return nodes


def validate(nodes):
    """structural soundness rules 1-6 of DESIGN.md 3.2 -> None or reason"""
    parts = list(parts_of(nodes))
    fields = [PART_FIELD[p] for p in parts]
    if len(set(fields)) != len(fields):
        return "field-repeated"
    s = pattern_str(nodes)
    # every occurrence of a part name in the printed pattern must lie inside an intended part
    spans = []
    pos = 0

    def walk(ns):
        nonlocal pos
        for n in ns:
            if n[0] == "lit":
                pos += len(n[1].replace("[", "\\[").replace("]", "\\]"))
            elif n[0] == "part":
                spans.append((pos, pos + len(n[1])))
                pos += len(n[1])
            else:
                pos += 1
                walk(n[1])
                pos += 1
    walk(nodes)
    for p in ALL_PARTS:
        i = s.find(p)
        while i >= 0:
            if not any(a <= i and i + len(p) <= b for a, b in spans):
                return "accidental-part-name"
            i = s.find(p, i + 1)

    def lits(ns):
        for n in ns:
            if n[0] == "lit":
                yield n[1]
            elif n[0] == "opt":
                yield from lits(n[1])
    for t in lits(nodes):
        if any(c.isupper() or c.isspace() or c in "{}" for c in t):
            return "bad-literal"

    def pytag_top(ns, depth):
        for n in ns:
            if n[0] == "part" and n[1] == "PYTAG" and depth == 0:
                return True
            if n[0] == "opt" and pytag_top(n[1], depth + 1):
                return True
        return False
    if pytag_top(nodes, 0):
        return "mandatory-pytag"
    return None


NUM_BOUNDARY = [0, 0, 1, 2, 9, 10, 11, 99, 100, 999, 1000]
BIDS = ["1000", "1001", "1999", "0001", "0999", "22000", "29999", "1", "09", "999", "1009", "1099", "110000", "09999"]


def gen_num(d):
    return d.choice(NUM_BOUNDARY) if d.chance(3, 4) else d.int(0, 10 ** 6)


def gen_date(d, wide=False):
    if wide and d.chance(1, 4):
        lo, hi = dt.date(1000, 1, 1).toordinal(), dt.date(9999, 12, 31).toordinal()
    else:
        lo, hi = dt.date(2001, 1, 1).toordinal(), dt.date(2099, 12, 31).toordinal()
    k = d.int(0, 5)
    if k == 0:
        # around New Year / month ends: where week numbers and ISO years are delicate
        y = d.int(dt.date.fromordinal(lo).year, dt.date.fromordinal(hi).year)
        base = dt.date(y, d.choice([1, 1, 12, 12, 2, 3, 6]), 1).toordinal() + d.int(-4, 34)
        return dt.date.fromordinal(min(max(base, lo), hi))
    return dt.date.fromordinal(d.int(lo, hi))


def state_from(date, major=0, minor=0, patch=0, num=0, inc0=0, inc1=1, bid="1001", tag="final"):
    s = dict(ref_cal(date))
    s["_date"] = date.isoformat()
    s.update(major=major, minor=minor, patch=patch, num=num, inc0=inc0, inc1=inc1, bid=bid, tag=tag)
    return s


def gen_state(d, nodes):
    parts = set(parts_of(nodes))
    two_digit = parts & {"YY", "0Y", "GG", "0G"}
    date = gen_date(d, wide=not two_digit)
    bid = d.choice(BIDS) if d.chance(3, 4) else d.text("0123456789", 1, 7)
    if "BLD" in parts:
        bid = str(int(bid)) if int(bid) >= 1 else "1"
    tag = d.choice(TAGS)
    if "TAG" in parts and d.chance(1, 12):
        tag = "preview"
    s = state_from(date, major=gen_num(d), minor=gen_num(d), patch=gen_num(d), num=gen_num(d), inc0=gen_num(d),
                   inc1=max(1, gen_num(d)), bid=bid, tag=tag)
    if tag == "final":
        s["num"] = 0
    return s


def date_of(state):
    return dt.date.fromisoformat(state["_date"])


def unambiguous(nodes, state, text=None):
    """the (pattern, text) pair has exactly one reference parse and it equals the generating state"""
    text = ref_render(nodes, state) if text is None else text
    ps = ref_parse_all(nodes, text)
    if len(ps) != 1:
        return False
    return state_eq_on(nodes, with_defaults(nodes, ps[0]), state)


def gen_pattern_and_state(d, safe_seps=False):
    """-> (nodes, state, text) or (None, reason, None) when the soundness self-check rejects the draw"""
    nodes = gen_version_ast(d, safe_seps=safe_seps)
    why = validate(nodes)
    if why:
        return None, why, None
    state = gen_state(d, nodes)
    text = ref_render(nodes, state)
    if not unambiguous(nodes, state, text):
        return None, "ambiguous-pattern-text-pair", None
    return nodes, state, text


# ------------------------------------------------------------------ PEP 440-shaped sub-grammar (C15, {pep440_version})

PEP_TAGKINDS = ["none", "[PYTAGNUM]", "[-TAG]", "[-TAGNUM]", "[.PYTAGNUM]", "[-TAG[NUM]]", "[PYTAG[NUM]]", "[_TAGNUM]", "[TAGNUM]",
                "[.TAG]", "[.TAG[NUM]]", "[_TAG[NUM]]"]


def gen_pep440_ast(d):
    """patterns whose versions are PEP 440 versions by design: prefix '' or 'v'; numeric release parts joined by '.'
    (or fixed-width parts glued); the release tag is the last part, separated by '', '-', '.' or '_'"""
    nodes = []
    if d.chance(1, 3):
        nodes.append(["lit", "v"])
    kind = d.choice(["cal", "sem", "cal+sem", "iso"])
    head = []
    if kind in ("cal", "cal+sem"):
        head += [d.choice(YEARS)] + d.choice(SUBS)
    elif kind == "iso":
        head += d.choice(ISO)
    counters = list(d.choice(SEMS)) if kind in ("sem", "cal+sem") else []
    extra = list(d.choice(EXTRAS))
    if kind in ("cal", "iso") and not extra and d.bool():
        extra = [d.choice(["BUILD", "INC0", "INC1", "PATCH", "BLD"])]
    seq = head + counters + extra
    main = []
    for k, p in enumerate(seq):
        if k > 0:
            prev = seq[k - 1]
            glue = (not is_var(prev)) and d.chance(1, 4) and not _straddles(prev, p)
            if not glue:
                main.append(["lit", "."])
        main.append(["part", p])
    tail = []
    while (len(main) >= 3 and main[-1][0] == "part" and main[-1][1] in ("MINOR", "PATCH", "INC0", "INC1")
           and main[-2][0] == "lit" and d.bool()):
        part = main.pop()
        sep = main.pop()
        tail = [["opt", [sep, part] + tail]]
    nodes += main + tail
    tk = d.choice(PEP_TAGKINDS)
    if tk != "none":
        body = tk[1:-1]
        grp = []
        i = 0
        while i < len(body):
            if body.startswith("PYTAG", i):
                grp.append(["part", "PYTAG"]); i += 5
            elif body.startswith("TAG", i):
                grp.append(["part", "TAG"]); i += 3
            elif body.startswith("[NUM]", i):
                grp.append(["opt", [["part", "NUM"]]]); i += 5
            elif body.startswith("NUM", i):
                grp.append(["part", "NUM"]); i += 3
            else:
                grp.append(["lit", body[i]]); i += 1
        nodes.append(["opt", grp])
    if not list(parts_of(nodes)):
        nodes.append(["part", "MAJOR"])
    return nodes


def gen_pep440_pattern_and_state(d):
    nodes = gen_pep440_ast(d)
    why = validate(nodes)
    if why:
        return None, why, None
    state = gen_state(d, nodes)
    text = ref_render(nodes, state)
    if not unambiguous(nodes, state, text):
        return None, "ambiguous-pattern-text-pair", None
    return nodes, state, text
