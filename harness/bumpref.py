"""README-derived bump model (DESIGN.md 3.6) and lexical-id reference.  Independent of v2version.incr."""
from harness.refmodel import PART_FIELD, CAL_FIELDS, ref_cal, parts_of

RESET = {"MAJOR": 0, "MINOR": 0, "PATCH": 0, "NUM": 0, "INC0": 0, "INC1": 1}
DEFAULTS = {"major": 0, "minor": 0, "patch": 0, "num": 0, "inc0": 0, "inc1": 1, "bid": "1000", "tag": "final"}


class Overflow(Exception):
    pass


def lexid_next(bid):
    """Lexical ids (pypi 'lexid'): the numeric successor while the width stays the same; when the leading
    digit would change, the id grows by one digit:  d99..9 -> (d+1)(d+1)00..0  (1999 -> 22000,
    09999 -> 110000).  All nines is the documented maximum."""
    nxt = str(int(bid) + 1).zfill(len(bid))
    if len(nxt) > len(bid) or nxt[0] != bid[0]:
        lead = int(bid[0]) + 1
        if lead > 9:
            raise Overflow(bid)
        return str(lead) * 2 + "0" * (len(bid) - 1)
    return nxt


def next_build(bid):
    """BUILD: ids below 1000 are first lifted by 1000 (no leading zero is lost), then the lexical successor"""
    if int(bid) < 1000:
        bid = str(int(bid) + 1000)
    return lexid_next(bid)


def cal_tuple(parts, state):
    fs = [f for f in CAL_FIELDS if any(PART_FIELD[p] == f for p in parts)]
    return [state[f] for f in fs]


def ref_bump(ast, s, *, major=False, minor=False, patch=False, tag=None, tag_num=False, pin_date=False,
             pin_increments=False, date=None):
    """-> new state (all fields).  Fields absent from the pattern start from their documented defaults."""
    parts = list(parts_of(ast))
    present = {PART_FIELD[p] for p in parts}
    old = dict(s)
    for f, v in DEFAULTS.items():
        if f not in present:
            old[f] = v
    cur = dict(old)
    if not pin_date:
        new_cal = ref_cal(date)
        if cal_tuple(parts, old) > cal_tuple(parts, new_cal):
            pass  # the current version lies in the future: calendar parts never move backwards
        else:
            cur.update(new_cal)
    if major:
        cur["major"] += 1
    if minor:
        cur["minor"] += 1
    if patch:
        cur["patch"] += 1
    if tag_num:
        cur["num"] += 1
    if tag:
        if tag != cur["tag"]:
            cur["num"] = 0
        cur["tag"] = tag
    if not pin_increments:
        cur["inc0"] += 1
        cur["inc1"] += 1
    cur["bid"] = next_build(cur["bid"])
    changed = False
    for p in parts:
        f = PART_FIELD[p]
        if changed and p in RESET:
            cur[f] = RESET[p]
        elif old[f] != cur[f]:
            changed = True
    return cur
