"""Project layouts on disk: config writers (TOML / INI), file writers, snapshots."""
import os
import stat
import hashlib


def toml_str(s):
    """TOML basic string in the one spelling that the toml 0.10.2 library (bumpver's parser) reads back exactly
    for every content (measured on 3*10^5 random strings): backslash doubled; quote, comma and control characters
    as \\uXXXX.  (Literal strings and \\" are mis-read by that library for strings starting with ',' or equal to '"'.)"""
    if s.startswith('""') or s.startswith("''"):
        # toml 0.10.2 takes a value that starts with two quotes for a multi-line string even when they are escaped
        raise ValueError("not expressible with toml 0.10.2: value starting with two quotes: %r" % s)
    out = ['"']
    for c in s:
        if c == "\\":
            out.append("\\\\")
        elif c in '",' or ord(c) < 0x20 or c == "\x7f":
            out.append("\\u%04x" % ord(c))
        else:
            out.append(c)
    out.append('"')
    return "".join(out)


def toml_key(k):
    """table key (a file path): literal string, or a basic string when the name contains a single quote (names with
    both quote kinds, a trailing backslash or control characters are not expressible reliably with toml 0.10.2)"""
    assert all(ord(c) >= 0x20 and c != "\x7f" for c in k) and not k.endswith("\\"), k
    if "'" not in k:
        return "'" + k + "'"
    assert '"' not in k and "\\" not in k, k
    return '"' + k + '"'


def toml_config(spec, section="bumpver"):
    """spec: current_version, version_pattern, options {key: str|bool}, files [[path, [patterns]], ...]
    The current_version line is always written as   current_version = "<v>"   (double quotes), which is
    what `bumpver init` writes and what the implicit self-pattern is derived from."""
    lines = ["[%s]" % section]
    cv = spec["current_version"]
    assert '"' not in cv and "\\" not in cv
    lines.append('current_version = "%s"' % cv)
    lines.append("version_pattern = %s" % toml_str(spec["version_pattern"]))
    for k, v in spec.get("options", {}).items():
        if isinstance(v, bool):
            lines.append("%s = %s" % (k, "true" if v else "false"))
        else:
            lines.append("%s = %s" % (k, toml_str(v)))
    lines.append("")
    lines.append("[%s.file_patterns]" % section)
    for path, pats in spec.get("files", []):
        lines.append("%s = [" % toml_key(path))
        for p in pats:
            lines.append("    %s," % toml_str(p))
        lines.append("]")
    return "\n".join(lines) + "\n"


def write_file(root, rel, data):
    p = os.path.join(root, rel)
    os.makedirs(os.path.dirname(p) or root, exist_ok=True)
    mode = "wb" if isinstance(data, bytes) else "w"
    if isinstance(data, bytes):
        with open(p, "wb") as f:
            f.write(data)
    else:
        with open(p, "w", encoding="utf-8", newline="") as f:
            f.write(data)
    return p


def snapshot(root, with_meta=False):
    """{relative path: bytes} (or (bytes, inode, mtime_ns)) of every regular file below root, .git excluded"""
    snap = {}
    for d, dirs, files in os.walk(root):
        dirs[:] = [x for x in dirs if x not in (".git", ".hg")]
        for fn in files:
            p = os.path.join(d, fn)
            rel = os.path.relpath(p, root)
            with open(p, "rb") as f:
                b = f.read()
            if with_meta:
                st = os.stat(p)
                snap[rel] = (b, st.st_ino, st.st_mtime_ns)
            else:
                snap[rel] = b
    return snap


def diff_snap(a, b):
    """paths whose content differs, appeared or vanished"""
    out = []
    for k in sorted(set(a) | set(b)):
        if a.get(k) != b.get(k):
            out.append(k)
    return out


# =========================================================================== generated project layouts
#
# A project spec is JSON-able and doubles as the replayable case:
#   {"ast", "state", "old", "pep_shaped",
#    "entries": [[config key (path or glob), [pattern index, ...]], ...]       order = processing order
#    "patterns": [{"kind", "raw", "ast" | None, "d1", "d2"}, ...]
#    "files": [{"path", "lines": [[segment, ...], ...], "seps": [sep per line], "bom": bool}, ...]
#             segment = ["t", text] | ["o", pattern index]
#    "bystanders": [{"path", "content"}], "explicit_config_entry": bool}

from harness.refmodel import PART_FIELD, parts_of, pattern_str, ref_render  # noqa: E402
from harness import pep440ref  # noqa: E402

DELIMS = [('ver%d="', '"'), ("(v%d ", ")"), ("#%d+ ", " +"), ("<x%d>", "</x>"), ("v%d: ", ";"), ("rel%d = '", "'"),
          ("- %d @ ", " @"), ("%d*(", ")*"), ("?%d=", "&"), ("{k%d: ", "}"), ("|%d| ", " |")]
ALT_PARTS = {"year_y": ["YYYY", "YY", "0Y"], "year_g": ["GGGG", "GG", "0G"], "month": ["MM", "0M"], "dom": ["DD", "0D"],
             "doy": ["JJJ", "00J"], "week_w": ["WW", "0W"], "week_u": ["UU", "0U"], "week_v": ["VV", "0V"], "quarter": ["Q"],
             "major": ["MAJOR"], "minor": ["MINOR"], "patch": ["PATCH"], "bid": ["BUILD", "BLD"], "tag": ["TAG"],
             "num": ["NUM"], "inc0": ["INC0"], "inc1": ["INC1"]}
WORDS = ["lorem", "ipsum", "release", "notes", "2019", "x86", "the", "version", "v", "1.0", "==", "-->", "#", "copyright",
         "build 7", "(c)", "3rd", "etc.", "a|b", "[ok]", "100%", "~", "", "  ", "\t"]


def occurrence_text(pat, vast, state):
    if "text" in pat:
        return pat["text"]  # fixed text (legacy projects: no reference renderer needed)
    if pat["kind"] == "pep":
        return pat["d1"] + pep440ref.canonical(ref_render(vast, state)) + pat["d2"]
    return ref_render(pat["ast"], state)


def gen_patterns(d, vast, n, k0, pep_shaped, allow_partial=True):
    pats = []
    fields = []
    for p in parts_of(vast):
        if PART_FIELD[p] not in fields:
            fields.append(PART_FIELD[p])
    two_digit_ok = any(p in ("YY", "0Y", "GG", "0G") for p in parts_of(vast))
    for i in range(n):
        k = k0 + i
        d1, d2 = d.choice(DELIMS)
        d1 = d1 % k
        kinds = ["version", "version", "full"] + (["pep", "pep"] if pep_shaped else []) + (["partial", "partial"] if allow_partial else [])
        kind = d.choice(kinds)
        if kind == "version":
            pats.append({"kind": kind, "raw": _esc(d1) + "{version}" + _esc(d2), "ast": [["lit", d1]] + vast + [["lit", d2]], "d1": d1, "d2": d2})
        elif kind == "full":
            pats.append({"kind": kind, "raw": _esc(d1) + pattern_str(vast) + _esc(d2), "ast": [["lit", d1]] + vast + [["lit", d2]], "d1": d1, "d2": d2})
        elif kind == "pep":
            pats.append({"kind": kind, "raw": _esc(d1) + "{pep440_version}" + _esc(d2), "ast": None, "d1": d1, "d2": d2})
        else:
            m = d.int(1, min(3, len(fields)))
            idx = sorted(d.shuffle(list(range(len(fields))))[:m])
            nodes = [["lit", d1]]
            for j, fi in enumerate(idx):
                f = fields[fi]
                alts = [a for a in ALT_PARTS.get(f, []) if two_digit_ok or a not in ("YY", "0Y", "GG", "0G")]
                if f == "bid" and any(p == "BLD" for p in parts_of(vast)):
                    alts = ["BLD"]  # a BLD version carries no leading zeros to show
                if not alts:
                    continue
                if len(nodes) > 1:
                    nodes.append(["lit", d.choice([".", "-", "/", " "])])
                nodes.append(["part", d.choice(alts)])
            if len(nodes) == 1:
                nodes.append(["part", ALT_PARTS[fields[0]][0]])
            nodes.append(["lit", d2])
            pats.append({"kind": kind, "raw": pattern_str(nodes), "ast": nodes, "d1": d1, "d2": d2})
    return pats


def _esc(t):
    return t.replace("[", "\\[").replace("]", "\\]")


def gen_filler(d, unicode_text=False):
    if unicode_text:
        n = d.int(0, 12)
        out = []
        for _ in range(n):
            c = d.codepoint()
            if c in (0x0A, 0x0D):
                c = 0x20
            out.append(chr(c))
        return "".join(out)
    return " ".join(d.choice(WORDS) for _ in range(d.int(0, 5)))


SEP_REGIMES = ["lf", "lf", "crlf", "cr", "mixed"]


def gen_file(d, path, pat_idx, npatterns_total, regime=None, unicode_text=False, share_lines=True, once_each=False, alone=()):
    """lines with planted occurrences; every pattern of pat_idx occurs at least once; at most one occurrence per
    pattern and line"""
    regime = regime or d.choice(SEP_REGIMES)
    lines = []
    todo = list(pat_idx)
    extra = [] if once_each else [d.choice(pat_idx) for _ in range(d.int(0, 2))] if pat_idx else []
    plant = d.shuffle(todo + extra)
    while plant:
        for _ in range(d.int(0, 2)):
            lines.append([["t", gen_filler(d, unicode_text)]])
        here = [plant.pop()]
        while plant and share_lines and d.chance(1, 3) and plant[-1] not in here and plant[-1] not in alone and here[0] not in alone:
            here.append(plant.pop())
        segs = [["t", gen_filler(d, unicode_text)]]
        for n_here, pi in enumerate(here):
            segs.append(["o", pi])
            if n_here + 1 < len(here) and d.chance(1, 4):
                segs.append(["t", ""])  # the next occurrence follows at once (touching spans)
            else:
                segs.append(["t", " " + gen_filler(d, unicode_text)])
        lines.append(segs)
    for _ in range(d.int(0, 2)):
        lines.append([["t", gen_filler(d, unicode_text)]])
    if not lines:
        lines = [[["t", "empty"]]]
    seps = []
    for i in range(len(lines)):
        if regime == "lf":
            seps.append("\n")
        elif regime == "crlf":
            seps.append("\r\n")
        elif regime == "cr":
            seps.append("\r")
        else:
            seps.append(d.choice(["\n", "\r\n", "\r"]))
    if d.chance(1, 3):
        seps[-1] = ""  # no final newline
    return {"path": path, "lines": lines, "seps": seps, "bom": unicode_text and d.chance(1, 8), "regime": regime}


def render_file(fspec, patterns, vast, state):
    out = ["﻿"] if fspec.get("bom") else []
    for segs, sep in zip(fspec["lines"], fspec["seps"]):
        for kind, v in segs:
            out.append(v if kind == "t" else occurrence_text(patterns[v], vast, state))
        out.append(sep)
    return "".join(out)


NAMES = ["README.md", "setup.py", "src/pkg/__init__.py", "docs/conf.py", "CHANGELOG.txt", "src/pkg/version.txt", "a b.txt", "x-1.cfg"]


def gen_project(d, vast, state, pep_shaped, max_files=5, max_patterns=4, unicode_text=False, regimes=None, share_lines=True,
                allow_glob=True, allow_partial=True, once_each=False, cover_config=False, nested=False, share_patterns=False):
    nfiles = d.int(1, max_files)
    names = d.shuffle(NAMES)[:nfiles]
    patterns, entries, files = [], [], []
    use_glob = allow_glob and nfiles >= 2 and d.chance(1, 3)
    for i, name in enumerate(names):
        n = d.int(1, max_patterns)
        pats = gen_patterns(d, vast, n, len(patterns), pep_shaped, allow_partial)
        idx = list(range(len(patterns), len(patterns) + n))
        patterns += pats
        entries.append([name, idx])
    if share_patterns:
        # the very same search pattern configured for two files (plain entries)
        for j in range(1, len(entries)):
            if d.chance(1, 4):
                donor = entries[d.int(0, j - 1)][1]
                pi = donor[d.int(0, len(donor) - 1)]
                if pi not in entries[j][1]:
                    entries[j][1].insert(d.int(0, len(entries[j][1])), pi)
    file_pat = {name: list(idx) for name, idx in entries}
    if use_glob:
        # two files share a glob entry (its patterns must occur in both); one of them keeps an explicit entry too
        # the second file: a plain sibling, a dot-file (pathlib's * matches it), or a file further down under a ** glob
        gkey, g1, g2 = d.choice([("glob/*.txt", "glob/one.txt", "glob/two.txt"), ("glob/*.txt", "glob/one.txt", "glob/two.txt"),
                                 ("glob/*.txt", "glob/one.txt", "glob/.two.txt"), ("glob/**/*.txt", "glob/one.txt", "glob/sub/deep/two.txt")])
        n = d.int(1, 2)
        pats = gen_patterns(d, vast, n, len(patterns), pep_shaped, allow_partial)
        gidx = list(range(len(patterns), len(patterns) + n))
        patterns += pats
        entries.insert(d.int(0, len(entries)), [gkey, gidx])
        file_pat[g1] = list(gidx)
        file_pat[g2] = list(gidx)
        glob_extra = None
        if d.bool():
            pats = gen_patterns(d, vast, 1, len(patterns), pep_shaped, allow_partial)
            patterns += pats
            entries.insert(d.int(0, len(entries)), [g1, [len(patterns) - 1]])
            file_pat[g1] = file_pat[g1] + [len(patterns) - 1]
            if d.bool():
                glob_extra = (g2, len(patterns) - 1)
    if nested:
        # a pattern whose text also occurs INSIDE the occurrences of an earlier pattern of the same file ('"{version}"'
        # next to 'ver3="{version}"'): bumpver keeps the first pattern's match and drops the overlapping one, the text
        # that results is the same either way; the nested pattern has occurrences of its own as well
        for name in [nm for nm in file_pat if "*" not in nm and not nm.startswith("glob/")]:
            cands = [i for i in file_pat[name] if patterns[i]["kind"] in ("version", "full") and patterns[i]["d1"] and patterns[i]["d2"]]
            if cands and d.chance(1, 5):
                a = patterns[d.choice(cands)]
                d1, d2 = a["d1"][-1:], a["d2"][:1]
                patterns.append({"kind": "version", "raw": _esc(d1) + "{version}" + _esc(d2), "ast": [["lit", d1]] + vast + [["lit", d2]],
                                 "d1": d1, "d2": d2, "nested": True})
                entry = next(e for e in entries if e[0] == name)
                entry[1].append(len(patterns) - 1)
                file_pat[name] = file_pat[name] + [len(patterns) - 1]
    config_marks = []
    if cover_config:
        # a glob entry that also covers the config file itself: its pattern is planted in a comment line of the
        # config; the implicit entry for the current_version line must still be there
        d1, d2 = "mark%d <" % len(patterns), ">"
        patterns.append({"kind": "version", "raw": d1 + "{version}" + d2, "ast": [["lit", d1]] + vast + [["lit", d2]], "d1": d1, "d2": d2})
        config_marks.append(len(patterns) - 1)
        entries.insert(d.int(0, len(entries)), ["*.toml", [len(patterns) - 1]])
    for name, idx in file_pat.items():
        regime = d.choice(regimes) if regimes else None
        files.append(gen_file(d, name, idx, len(patterns), regime, unicode_text, share_lines, once_each or (regime or "") == "mixed",
                              alone=[i for i in idx if patterns[i].get("nested")]))
    if use_glob and glob_extra:
        # the sibling holds text that looks like the pattern configured for the OTHER file only: it is not configured
        # here and must stay as it is
        for f in files:
            if f["path"] == glob_extra[0]:
                f["lines"].insert(d.int(0, len(f["lines"])), [["t", "not mine: " + occurrence_text(patterns[glob_extra[1]], vast, state)]])
                f["seps"].insert(0, {"lf": "\n", "crlf": "\r\n", "cr": "\r"}.get(f["regime"]) or f["seps"][0] or "\n")
    for f in files:
        if f["regime"] == "mixed":
            # bumpver's notion of a line differs from ours under mixed separators: plant every pattern once only
            seen = set()
            for segs in f["lines"]:
                segs[:] = [s for s in segs if s[0] == "t" or (s[1] not in seen and not seen.add(s[1]))]
    bystanders = []
    for j in range(d.int(0, 2)):
        content = gen_filler(d, unicode_text) + "\n"
        if patterns and d.bool():
            content += occurrence_text(patterns[0], vast, state) + "\n"  # would match, but is not configured
        bystanders.append({"path": "other/bystander%d.txt" % j, "content": content})
    # some plain entries are written as ./path in the config: the same file, whatever the spelling (it may also be
    # covered by a glob entry, whose patterns then apply to it as well)
    dot_slash = [key for key, _idx in entries if "*" not in key and d.chance(1, 5)]
    return {"ast": vast, "state": state, "pep_shaped": pep_shaped, "patterns": patterns, "entries": entries, "files": files,
            "bystanders": bystanders, "explicit_config_entry": d.chance(1, 4), "config_marks": config_marks, "dot_slash_keys": dot_slash}


def project_config(spec, old, options=None):
    dot = set(spec.get("dot_slash_keys", []))
    files = [["./" + key if key in dot else key, [spec["patterns"][i]["raw"] for i in idx]] for key, idx in spec["entries"]]
    if spec.get("explicit_config_entry"):
        files.insert(0, ["bumpver.toml", ['current_version = "{version}"']])
    vp = spec.get("pattern_text") or pattern_str(spec["ast"])
    text = toml_config({"current_version": old, "version_pattern": vp, "options": options or {}, "files": files})
    for i in spec.get("config_marks", []):
        pat = spec["patterns"][i]
        text += "# %s%s%s\n" % (pat["d1"], old, pat["d2"])
    return text


def materialize(spec, root, state, options=None):
    old = spec.get("old_text") or ref_render(spec["ast"], state)
    write_file(root, "bumpver.toml", project_config(spec, old, options))
    for f in spec["files"]:
        write_file(root, f["path"], render_file(f, spec["patterns"], spec["ast"], state))
    for b in spec["bystanders"]:
        write_file(root, b["path"], b["content"])
    return old


def expected_files(spec, state, options=None):
    """{path: text} of every configured file (config included) for a given version state"""
    new = ref_render(spec["ast"], state)
    out = {"bumpver.toml": project_config(spec, new, options)}
    for f in spec["files"]:
        out[f["path"]] = render_file(f, spec["patterns"], spec["ast"], state)
    return out


def construction_ok(spec, state):
    """self-check with the reference matcher: on the old content every pattern matches exactly at its planted
    spans (leftmost occurrence per line) and nowhere else.  -> None | reason"""
    from harness.refmodel import ref_search
    for f in spec["files"]:
        mine = {i for segs in f["lines"] for k, i in segs if k == "o"}
        for segs in f["lines"]:
            line = "".join(v if k == "t" else occurrence_text(spec["patterns"][v], spec["ast"], state) for k, v in segs)
            planted = {}
            pos = 0
            for k, v in segs:
                t = v if k == "t" else occurrence_text(spec["patterns"][v], spec["ast"], state)
                if k == "o":
                    planted[v] = (pos, pos + len(t))
                pos += len(t)
            for i in mine:
                pat = spec["patterns"][i]
                if pat["ast"] is None:
                    j = line.find(pat["d1"])
                    got = None
                    if j >= 0:
                        e = line.find(pat["d2"], j + len(pat["d1"]))
                        got = (j, e + len(pat["d2"])) if e >= 0 else None
                else:
                    got = ref_search(pat["ast"], line)
                if got != planted.get(i):
                    if got is not None and planted.get(i) is None and pat.get("nested") and any(
                            j != i and spec["patterns"][j]["kind"] in ("version", "full") and lo <= got[0] and got[1] <= hi
                            for j, (lo, hi) in planted.items()):
                        continue  # inside the occurrence of another full-version pattern: same text either way
                    return "pattern %d matches at %r, planted at %r" % (i, got, planted.get(i))
    return None


# =========================================================================== bump flags for project checks

import datetime as _dt  # noqa: E402


def gen_bump(d, vast, state):
    """flags/date that make a successful bump likely -> (flags dict for bv.flag_args, date iso)"""
    from harness import grammar
    from harness.refmodel import ref_cal
    parts = set(parts_of(vast))
    flags = {"major": False, "minor": False, "patch": False, "tag_num": False, "pin_date": False, "pin_increments": False, "tag": None}
    old_date = grammar.date_of(state)
    off = d.choice([0, 0, 1, 31, 400])
    try:
        date = old_date + _dt.timedelta(days=off)
    except OverflowError:
        date = old_date
    if not 1000 <= date.year <= 9999:
        date = old_date
    if parts & {"YY", "0Y", "GG", "0G"} and not (2001 <= date.year <= 2099 and 2001 <= ref_cal(date)["year_g"] <= 2099):
        date = old_date
    cands = [f for f in ("patch", "minor", "major") if f.upper() in parts]
    if cands and d.chance(3, 4):
        flags[d.choice(cands)] = True
    if "NUM" in parts and state["tag"] != "final" and d.chance(1, 3):
        flags["tag_num"] = True
    if parts & {"TAG", "PYTAG"} and d.chance(1, 4):
        order = ["dev", "alpha", "beta", "rc", "final", "post"]
        later = [t for t in order if order.index(t) > order.index(state["tag"])] if state["tag"] in order else order
        if later:
            flags["tag"] = d.choice(later)
            flags["tag_num"] = False
    if d.chance(1, 8):
        flags["pin_date"] = True
    return flags, date.isoformat()


# =========================================================================== legacy (brace pattern) projects, fixed text

LEGACY = [("{pycalver}", "v202010.1001-beta", "202010.1001b0"), ("{pycalver}", "v201812.0033", "201812.33"),
          ("{semver}", "1.2.3", "1.2.3"), ("v{year}{month}{build}{release}", "v202011.1002-rc", "202011.1002rc0"),
          ("{year}{build}{release}", "2020.1003", "2020.1003")]


def gen_legacy_project(d, regimes=("lf", "lf", "crlf"), max_files=5, max_patterns=3):
    """same layout generator, but occurrences carry their (old) text; {version} and {pep440_version} patterns only.
    -> (spec, flags, date)"""
    import datetime as dt
    from harness import grammar
    vp, old, pep = d.choice(LEGACY)
    spec = gen_project(d, [["part", "MAJOR"]], grammar.state_from(dt.date(2020, 1, 1)), pep_shaped=True, max_files=max_files,
                       max_patterns=max_patterns, regimes=list(regimes), allow_partial=False, allow_glob=False)
    for p in spec["patterns"]:
        if p["kind"] == "pep":
            p["raw"] = p["d1"] + "{pep440_version}" + p["d2"]
            p["text"] = p["d1"] + pep + p["d2"]
        else:
            p["kind"] = "version"
            p["raw"] = p["d1"] + "{version}" + p["d2"]  # legacy patterns have no optional groups: brackets are plain text
            p["text"] = p["d1"] + old + p["d2"]
        p["ast"] = None
    spec["pattern_text"] = vp
    spec["old_text"] = old
    spec["bystanders"] = []
    spec["legacy"] = True
    return spec, {"patch": vp == "{semver}"}, "2021-03-04"
