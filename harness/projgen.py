"""Project layouts on disk: config writers (TOML / INI), file writers, snapshots."""
import os
import stat
import hashlib


def toml_str(s):
    """TOML basic string in the one spelling that the toml 0.10.2 library (bumpver's parser) reads back exactly
    for every content (measured on 3*10^5 random strings): backslash doubled; quote, comma and control characters
    as \\uXXXX.  (Literal strings and \\" are mis-read by that library for strings starting with ',' or equal to '"'.)"""
    out = ['"']
    for c in s:
        if c == "\\":
            out.append("\\\\")
        elif c in '",' or ord(c) < 0x20 or c == "\x7f":
            out.append("\\u%04x" % ord(c))
        else:
            out.append(c)
    out.append('"')
    return "".join(out)


def toml_key(k):
    """table key (a file path): literal string; backslash, single quote and control characters are not
    expressible reliably with toml 0.10.2 and are rejected here"""
    assert "'" not in k and "\\" not in k and all(ord(c) >= 0x20 and c != "\x7f" for c in k), k
    return "'" + k + "'"


def toml_config(spec, section="bumpver"):
    """spec: current_version, version_pattern, options {key: str|bool}, files [[path, [patterns]], ...]
    The current_version line is always written as   current_version = "<v>"   (double quotes), which is
    what `bumpver init` writes and what the implicit self-pattern is derived from."""
    lines = ["[%s]" % section]
    cv = spec["current_version"]
    assert '"' not in cv and "\\" not in cv
    lines.append('current_version = "%s"' % cv)
    lines.append("version_pattern = %s" % toml_str(spec["version_pattern"]))
    for k, v in spec.get("options", {}).items():
        if isinstance(v, bool):
            lines.append("%s = %s" % (k, "true" if v else "false"))
        else:
            lines.append("%s = %s" % (k, toml_str(v)))
    lines.append("")
    lines.append("[%s.file_patterns]" % section)
    for path, pats in spec.get("files", []):
        lines.append("%s = [" % toml_key(path))
        for p in pats:
            lines.append("    %s," % toml_str(p))
        lines.append("]")
    return "\n".join(lines) + "\n"


def write_file(root, rel, data):
    p = os.path.join(root, rel)
    os.makedirs(os.path.dirname(p) or root, exist_ok=True)
    mode = "wb" if isinstance(data, bytes) else "w"
    if isinstance(data, bytes):
        with open(p, "wb") as f:
            f.write(data)
    else:
        with open(p, "w", encoding="utf-8", newline="") as f:
            f.write(data)
    return p


def snapshot(root, with_meta=False):
    """{relative path: bytes} (or (bytes, inode, mtime_ns)) of every regular file below root, .git excluded"""
    snap = {}
    for d, dirs, files in os.walk(root):
        dirs[:] = [x for x in dirs if x not in (".git", ".hg")]
        for fn in files:
            p = os.path.join(d, fn)
            rel = os.path.relpath(p, root)
            with open(p, "rb") as f:
                b = f.read()
            if with_meta:
                st = os.stat(p)
                snap[rel] = (b, st.st_ino, st.st_mtime_ns)
            else:
                snap[rel] = b
    return snap


def diff_snap(a, b):
    """paths whose content differs, appeared or vanished"""
    out = []
    for k in sorted(set(a) | set(b)):
        if a.get(k) != b.get(k):
            out.append(k)
    return out
