"""Hermetic real-git sandboxes (DESIGN.md 3.9)."""
import os
import subprocess

GIT = "/usr/bin/git"


def env(home):
    return {
        "PATH": "/usr/bin:/bin", "HOME": home, "GIT_CONFIG_GLOBAL": "/dev/null", "GIT_CONFIG_SYSTEM": "/dev/null",
        "GIT_CONFIG_NOSYSTEM": "1", "GIT_TERMINAL_PROMPT": "0", "GIT_AUTHOR_NAME": "Verif", "GIT_AUTHOR_EMAIL": "verif@example.org",
        "GIT_COMMITTER_NAME": "Verif", "GIT_COMMITTER_EMAIL": "verif@example.org", "GIT_AUTHOR_DATE": "2020-01-01T00:00:00+0000",
        "GIT_COMMITTER_DATE": "2020-01-01T00:00:00+0000", "LC_ALL": "C.UTF-8", "TZ": "UTC", "GIT_OPTIONAL_LOCKS": "0",
    }


def git(repo, *args, check=True, raw=False):
    p = subprocess.run([GIT] + list(args), cwd=repo, env=env(repo), capture_output=True)
    if check and p.returncode != 0:
        raise RuntimeError(f"git {args} failed in {repo}: {p.stderr.decode('utf-8', 'replace')}")
    if raw:
        return p.stdout
    return p.stdout.decode("utf-8", "surrogateescape")


def init(repo, commit_all=True, message="initial"):
    git(repo, "init", "-q", "-b", "main")
    git(repo, "config", "core.quotepath", "false")
    if commit_all:
        git(repo, "add", "-A")
        git(repo, "commit", "-q", "--allow-empty", "-m", message)


def head(repo):
    return git(repo, "rev-parse", "HEAD").strip()


def commit_count(repo, ref="HEAD"):
    return int(git(repo, "rev-list", "--count", ref).strip())


def tags(repo):
    return [t for t in git(repo, "tag", "--list").split("\n") if t]
