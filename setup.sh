#!/bin/sh
# MANIFEST.setup_cmd - offline, idempotent.  hypothesis and packaging are normally present in /venv already.
set -e
cd "$(dirname "$0")"
/venv/bin/python -c "import hypothesis, packaging" 2>/dev/null || \
  PIP_NO_INDEX=1 /venv/bin/pip install --no-index --find-links /opt/veriftools/wheels hypothesis packaging
/venv/bin/python - <<'PY'
import sys
sys.path.insert(0, "/repo/src")
import hypothesis, packaging, click, toml, lexid, bumpver
print("setup ok: hypothesis", hypothesis.__version__, "packaging", packaging.__version__, "bumpver from", bumpver.__file__)
PY
# optional coverage-guided tier (harness/fuzz.py): atheris from the offline wheelhouse into /verif/.deps
PYTHONPATH=.deps /venv/bin/python -c "import atheris" 2>/dev/null || \
  PIP_NO_INDEX=1 /venv/bin/pip install -q --no-index --find-links /opt/veriftools/wheels --target .deps atheris 2>/dev/null || \
  echo "setup: atheris not installed - the coverage-guided parts will report themselves unavailable"
git --version >/dev/null
chmod +x check fakevcs/git fakevcs/hg 2>/dev/null || true
