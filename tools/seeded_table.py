#!/usr/bin/env python3
"""Markdown table of the seeded breakages: round 1 (checks as they were when the seeds arrived) and final."""
import os, json
base = os.path.join(os.path.dirname(os.path.dirname(os.path.abspath(__file__))), "seeded")
print("| seed | change | needs to manifest | round 1 | now caught by |")
print("|---|---|---|---|---|")
n = c1 = c2 = 0
for d in sorted(os.listdir(base)):
    mp = os.path.join(base, d, "meta.json")
    if not os.path.exists(mp):
        continue
    m = json.load(open(mp))
    r1 = json.load(open(os.path.join(base, d, "result_round1.json"))) if os.path.exists(os.path.join(base, d, "result_round1.json")) else {}
    r2 = json.load(open(os.path.join(base, d, "result.json"))) if os.path.exists(os.path.join(base, d, "result.json")) else {}
    n += 1
    c1 += bool(r1.get("caught_by"))
    c2 += bool(r2.get("caught_by"))
    b = "; ".join(sorted({x.split(":")[0] for v in r2.get("checks", {}).values() if v.get("caught") for x in v["buckets"][:2]}))
    print("| %s | %s | %s | %s | %s |" % (d, m.get("change", ""), m.get("needs_to_manifest", ""), "caught" if r1.get("caught_by") else "missed",
                                      (", ".join(r2.get("caught_by", [])) + (" (" + b + ")" if b else "")) if r2.get("caught_by") else "**missed**"))
print()
print("%d seeds, all confirmed valid (suite passes, demo passes on /repo and fails with the patch); first evaluation: %d caught; now: %d caught. "
      "(Column 'round 1' = the first evaluation of that seed: wave 1 (-1, -2) with the checks as they were when the seeds arrived, "
      "wave 2 after the generator gaps named above had been closed, waves 3 and 4 with the checks untouched; wave numbers are in meta.json.)" % (n, c1, c2))
