#!/venv/bin/python
"""Regenerate MANIFEST.json from the check modules (each carries its own MANIFEST dict)."""
import os, sys, json, importlib
VERIF = os.path.dirname(os.path.dirname(os.path.abspath(__file__)))
sys.path.insert(0, "/repo/src"); sys.path.insert(1, VERIF)

props = [json.loads(l) for l in open(os.path.join(VERIF, "properties.jsonl"))]
checks, na = [], []
mods = {}
for fn in sorted(os.listdir(os.path.join(VERIF, "checks"))):
    if fn.startswith("c") and fn[1:3].isdigit() and fn.endswith(".py"):
        m = importlib.import_module("checks." + fn[:-3])
        mods[m.ID] = m
for p in props:
    pid = p["id"]
    m = mods.get(pid)
    if m is None or not hasattr(m, "MANIFEST"):
        na.append({"property_id": pid, "reason": "check not built yet (work in progress; see DESIGN.md section 4 for the planned check)"})
        continue
    mf = m.MANIFEST
    checks.append({
        "property_id": pid,
        "quick_cmd": f"./check {pid} quick",
        "thorough_cmd": f"./check {pid} thorough",
        "evidence_file": f"evidence/{pid}.json",
        "replay_cmd_template": f"./check {pid} --replay {{path}}",
        "engine": "hypothesis+enumeration",
        "level_claimed": {"category": m.LEVEL, "text": mf["text"], "design_ref": mf.get("design_ref", f"DESIGN.md section 4, {pid}")},
        "level_note": mf["note"],
        "technique": mf["technique"],
    })
manifest = {
    "version": 1,
    "setup_cmd": "./setup.sh",
    "hooks": {
        "guard": "none",
        "enable": "no source hooks are used: dates are injected with --date, VCS interaction through executables on PATH, bumpver is imported from /repo/src (BUMPVER_SRC) in a fresh process per run",
        "baseline_off_cmd": "cd /repo && /venv/bin/python -m pytest -ra -q -p no:cacheprovider --timeout=900 --continue-on-collection-errors",
        "source_commits": [],
        "add_only": True,
    },
    "engines": [{"name": "hypothesis+enumeration", "path": "harness/core.py",
                 "serves_properties": [c["property_id"] for c in checks],
                 "kind_free_text": "property-based testing: Hypothesis-driven generated cases (one binary draw decoded by a grammar), exhaustive enumeration of finite sub-domains, 16-way sharding, bucketed violations, Hypothesis shrinking, JSON replay files"},
                {"name": "atheris/libFuzzer (coverage-guided, additive)", "path": "harness/fuzz.py",
                 "serves_properties": [c["property_id"] for c in checks if "coverage-guided" in c.get("technique", "")],
                 "kind_free_text": "coverage-guided fuzzing of the same byte decoder + semantic oracle as the Hypothesis parts; bumpver package instrumented; one libFuzzer child per shard; fails soft (part reported unavailable) when atheris cannot be installed from the offline wheelhouse"}],
    "checks": checks,
    "not_applicable": na,
    "notes": "See DESIGN.md. known_findings.json lists recorded genuine defects (open) and repaired ones (fixed).",
}
with open(os.path.join(VERIF, "MANIFEST.json"), "w") as f:
    json.dump(manifest, f, indent=1)
    f.write("\n")
print(f"MANIFEST.json: {len(checks)} checks, {len(na)} not_applicable")
