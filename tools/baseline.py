#!/venv/bin/python
"""Run the repository's pinned baseline suite (against /repo or a given directory) and compare with
/root/.vp/BASELINE.json stable_pass.  Exit 0 iff every stable_pass test passes."""
import os, re, sys, json, subprocess, tempfile
import xml.etree.ElementTree as ET

repo = sys.argv[1] if len(sys.argv) > 1 else "/repo"
base = json.load(open("/root/.vp/BASELINE.json"))
fd, xml = tempfile.mkstemp(suffix=".xml"); os.close(fd)
env = dict(os.environ)
if repo != "/repo":
    env["PYTHONPATH"] = os.path.join(repo, "src")
subprocess.run(["/venv/bin/python", "-m", "pytest", "-ra", "-q", "-p", "no:cacheprovider", "--timeout=900",
                "--continue-on-collection-errors", "--junitxml=" + xml], cwd=repo, env=env, capture_output=True)
passed = set()


def norm(name):
    # some parametrised test ids embed the current year/month (v202609.1001-alpha): ignore it
    return re.sub(r"20[0-9]{2}(0[1-9]|1[0-2])?\.1001", "<DATE>.1001", name)


for tc in ET.parse(xml).getroot().iter("testcase"):
    if not any(ch.tag in ("failure", "error", "skipped") for ch in tc):
        passed.add(norm(tc.get("classname") + "::" + tc.get("name")))
os.unlink(xml)
missing = [t for t in base["stable_pass"] if norm(t) not in passed]
print(f"baseline: {len(base['stable_pass']) - len(missing)}/{len(base['stable_pass'])} stable tests pass")
for m in missing[:20]:
    print("  NOT PASSING:", m)
sys.exit(1 if missing else 0)
