#!/venv/bin/python
"""Evaluate independently seeded breakages (seeded/<id>/: patch.diff, demo.py, meta.json).

    tools/seeded.py seeded/C03-a              # verify the seed itself, then run the quick check(s) against it
    tools/seeded.py --all [--no-verify]

For each seed: a scratch copy of /repo (outside /repo and /verif) gets the patch (`git apply`); the repository's baseline
suite must still pass; the demo must pass on /repo and fail on the copy; then `./check <property> quick` (and any checks
listed under "also" in meta.json) run with BUMPVER_SRC pointing at the copy. Results go to seeded/<id>/result.json.
"""
import os
import sys
import json
import shutil
import tempfile
import subprocess

VERIF = os.path.dirname(os.path.dirname(os.path.abspath(__file__)))


def run_demo(demo, src):
    env = dict(os.environ, PYTHONPATH=src, PYTHONDONTWRITEBYTECODE="1")
    p = subprocess.run(["/venv/bin/python", demo], env=env, capture_output=True, text=True, timeout=600, cwd=tempfile.gettempdir())
    return p.returncode, (p.stdout + p.stderr)[-600:]


def evaluate(seed_dir, verify=True):
    seed_dir = os.path.abspath(seed_dir)
    meta = json.load(open(os.path.join(seed_dir, "meta.json")))
    tmp = tempfile.mkdtemp(prefix="bvseed_")
    res = {"seed": os.path.basename(seed_dir), "property": meta["property"]}
    try:
        dst = os.path.join(tmp, "repo")
        shutil.copytree("/repo", dst, ignore=shutil.ignore_patterns(".git", "__pycache__", "*.pyc", ".pytest_cache"))
        p = subprocess.run(["git", "apply", "--whitespace=nowarn", os.path.join(seed_dir, "patch.diff")], cwd=dst, capture_output=True, text=True)
        if p.returncode != 0:
            res["error"] = "patch does not apply: " + p.stderr[-300:]
            with open(os.path.join(seed_dir, "result.json"), "w") as f:
                json.dump(res, f, indent=1)
            return res
        if verify:
            b = subprocess.run([os.path.join(VERIF, "tools", "baseline.py"), dst], capture_output=True, text=True)
            res["suite_passes"] = b.returncode == 0
            res["suite"] = b.stdout.strip().splitlines()[-3:]
            demo = os.path.join(seed_dir, "demo.py")
            rc0, out0 = run_demo(demo, "/repo/src")
            rc1, out1 = run_demo(demo, os.path.join(dst, "src"))
            res["demo_clean_exit"], res["demo_patched_exit"] = rc0, rc1
            res["demo_patched_output"] = out1
            res["seed_valid"] = bool(res["suite_passes"] and rc0 == 0 and rc1 != 0)
        checks = [meta["property"]] + list(meta.get("also", []))
        res["checks"] = {}
        for prop in checks:
            env = dict(os.environ, BUMPVER_SRC=os.path.join(dst, "src"), VERIF_OUT=tmp)
            r = subprocess.run([os.path.join(VERIF, "check"), prop, "quick"], env=env, capture_output=True, text=True)
            buckets = [ln.strip()[8:] for ln in r.stdout.splitlines() if ln.strip().startswith("bucket:")]
            res["checks"][prop] = {"exit": r.returncode, "caught": r.returncode == 1 and "VIOLATION" in r.stdout, "buckets": buckets[:4]}
            rdir = os.path.join(tmp, "replays", prop)
            parts = set()
            if os.path.isdir(rdir):
                for fn in os.listdir(rdir):
                    try:
                        parts.add(json.load(open(os.path.join(rdir, fn)))["part"])
                    except Exception:
                        pass
            res["checks"][prop]["parts"] = sorted(parts)
            if r.returncode == 2:
                res["checks"][prop]["stderr"] = r.stderr[-800:]
        res["caught_by"] = [p for p, v in res["checks"].items() if v["caught"]]
    finally:
        shutil.rmtree(tmp, ignore_errors=True)
    with open(os.path.join(seed_dir, "result.json"), "w") as f:
        json.dump(res, f, indent=1)
    return res


def main():
    args = [a for a in sys.argv[1:] if not a.startswith("--")]
    verify = "--no-verify" not in sys.argv
    if "--all" in sys.argv:
        base = os.path.join(VERIF, "seeded")
        args = sorted(os.path.join(base, d) for d in os.listdir(base) if os.path.exists(os.path.join(base, d, "meta.json")))
    for a in args:
        r = evaluate(a, verify)
        print(json.dumps({k: v for k, v in r.items() if k not in ("demo_patched_output", "suite")})[:600])


if __name__ == "__main__":
    main()
