#!/usr/bin/env python3
"""Copy what a sub-agent left in /tmp/seed/<ID>/_seed/ into /verif/seeded/<ID>-<k>/ (patch.diff, demo.py, notes.md, meta.json)."""
import os, sys, json, shutil
pid = sys.argv[1]
base = sys.argv[2] if len(sys.argv) > 2 else "/tmp/seed"
offset = int(sys.argv[3]) if len(sys.argv) > 3 else 0
src = f"{base}/{pid}/_seed"
for k in (1, 2, 3):
    if not os.path.exists(f"{src}/patch{k}.diff"):
        continue
    dst = f"/verif/seeded/{pid}-{k + offset}"
    os.makedirs(dst, exist_ok=True)
    shutil.copy(f"{src}/patch{k}.diff", f"{dst}/patch.diff")
    shutil.copy(f"{src}/demo{k}.py", f"{dst}/demo.py")
    if os.path.exists(f"{src}/notes{k}.md"):
        shutil.copy(f"{src}/notes{k}.md", f"{dst}/notes.md")
    notes = open(f"{dst}/notes.md").read() if os.path.exists(f"{dst}/notes.md") else ""
    meta = {"property": pid, "origin": "independent sub-agent given only the property text and a scratch worktree",
            "needs_to_manifest": "see notes.md", "ran": "tools/seeded.py seeded/%s-%d (suite via tools/baseline.py, demo on /repo and on the patched copy, ./check %s quick with BUMPVER_SRC)" % (pid, k, pid)}
    if os.path.exists(f"{dst}/meta.json"):
        old = json.load(open(f"{dst}/meta.json"))
        meta.update({k2: v for k2, v in old.items() if k2 in ("also", "needs_to_manifest", "summary")})
    json.dump(meta, open(f"{dst}/meta.json", "w"), indent=1)
    print("imported", dst)
