#!/venv/bin/python
"""Sensitivity harness (not part of MANIFEST): apply deliberate breakages to a scratch copy of /repo
and run the quick check against it.

    tools/mutants.py C16                 # all mutants listed in mutants/C16.json
    tools/mutants.py C16 name1 name2     # selected
    tools/mutants.py C16 --suite         # also run the repository's own tests against each mutant

mutants/<ID>.json: [{"name":..., "file":"src/bumpver/x.py", "old":..., "new":..., "count":1}, ...]
A mutant may list several edits under "edits".  Scratch copies live under $TMPDIR and are removed.
"""
import os
import sys
import json
import shutil
import tempfile
import subprocess

VERIF = os.path.dirname(os.path.dirname(os.path.abspath(__file__)))


def main():
    prop = sys.argv[1].upper()
    args = sys.argv[2:]
    suite = "--suite" in args
    tier = "quick"
    names = [a for a in args if not a.startswith("--")]
    with open(os.path.join(VERIF, "mutants", prop + ".json")) as f:
        muts = json.load(f)
    results = []
    for m in muts:
        if names and m["name"] not in names:
            continue
        if m.get("equivalent") and not names:
            print(f"{prop} mutant {m['name']:40s} -> skipped, equivalent: {m['equivalent']}")
            continue
        tmp = tempfile.mkdtemp(prefix="bvmut_")
        try:
            dst = os.path.join(tmp, "repo")
            shutil.copytree("/repo", dst, ignore=shutil.ignore_patterns(".git", "__pycache__", "*.pyc", ".pytest_cache"))
            for e in m.get("edits", [m]):
                p = os.path.join(dst, e["file"])
                s = open(p).read()
                if s.count(e["old"]) != e.get("count", 1):
                    raise SystemExit(f"mutant {m['name']}: expected {e.get('count', 1)} occurrence(s) of {e['old']!r} in {e['file']}, found {s.count(e['old'])}")
                open(p, "w").write(s.replace(e["old"], e["new"]))
            suite_res = None
            if suite:
                env = dict(os.environ, PYTHONPATH=os.path.join(dst, "src"))
                r = subprocess.run(["/venv/bin/python", "-m", "pytest", "-q", "-p", "no:cacheprovider", "-rf",
                                    "--timeout=900", "-k", "not hg", "test", "src"], cwd=dst, env=env,
                                   capture_output=True, text=True)
                failed = sorted(ln.split(" - ")[0] for ln in r.stdout.splitlines() if ln.startswith("FAILED "))
                failed = [f for f in failed if "test_update_semver_diff" not in f and "test_update_semver_warning" not in f]
                suite_res = "suite-pass" if not failed else f"suite-FAILS({len(failed)}: {failed[0][7:90]})"
            env = dict(os.environ, BUMPVER_SRC=os.path.join(dst, "src"), VERIF_OUT=tmp)
            r = subprocess.run([os.path.join(VERIF, "check"), prop, tier], env=env, capture_output=True, text=True)
            caught = r.returncode == 1 and "VIOLATION" in r.stdout
            buckets = [ln.strip() for ln in r.stdout.splitlines() if ln.strip().startswith("bucket:")]
            wall = [ln for ln in r.stdout.splitlines() if ln.startswith("[" + prop + "]")]
            print(f"{prop} mutant {m['name']:40s} -> exit {r.returncode} {'CAUGHT' if caught else 'MISSED'} {suite_res or ''} {buckets[:3]} {wall[-1][-12:] if wall else ''}")
            if r.returncode == 2:
                print(r.stderr[-3000:])
            results.append((m["name"], caught))
        finally:
            shutil.rmtree(tmp, ignore_errors=True)
    # evidence/replays written by mutant runs must not be left behind
    missed = [n for n, c in results if not c]
    print(f"{prop}: {len(results) - len(missed)}/{len(results)} mutants caught; missed: {missed}")


if __name__ == "__main__":
    main()
